From Coq Require Import List Arith Lia Bool.
Import ListNotations.

(* ONE definition of the scan loop used both for running (trace, both waker strategies, handle resolution)
   and for proving (ghost history).  Instance-generic. *)
Fixpoint upd {A} (l: list A) (i: nat) (x: A) : list A :=
  match l, i with [], _ => [] | _ :: t, 0 => x :: t | h :: t, S j => h :: upd t j x end.
Lemma upd_length {A} (l: list A) i x : length (upd l i x) = length l.
Proof. revert i; induction l; destruct i; simpl; auto. Qed.
Lemma nth_upd_same {A} (l: list A) i x d : i < length l -> nth i (upd l i x) d = x.
Proof. revert i; induction l; destruct i; simpl; intros; try lia; auto. apply IHl; lia. Qed.
Lemma nth_upd_other {A} (l: list A) i j x d : i <> j -> nth j (upd l i x) d = nth j l d.
Proof. revert i j; induction l; destruct i, j; simpl; intros; try congruence; auto. Qed.

Inductive pstate := PNone | PPending | PReady.
Inductive href := HSelf | HOf (c k: nat).
Inductive res := ROk (v: nat) | RErr (e: nat).
Inductive ans := APend | AReady (r: res) | AItem (v: nat) | AEnd | APanic.
Definition is_pend (a: ans) := match a with APend => true | _ => false end.
Lemma APend_not_panic : APend <> APanic. Proof. discriminate. Qed.
Record step := { fires : list href; answer : ans }.
Inductive wk := WSub (slot: nat) | WPar (pid: nat).
Inductive out := OVals (vs: list nat) | OOk (vs: list nat) | OErr (e: nat) | OErrs (es: list nat) | OSome (key: option nat) (vs: list nat) | ONone.
Inductive ev := EB (p: nat) | EC (m: nat) (w: wk) | EF (c k: nat) | EW (p: nat) | EAns (a: ans)
              | EEndP | EEndR (o: out) | EEndX | EO | ED | EDc (m: nat) | EV (v: nat) | EK (k: nat) | EN (n: nat) | EBool (b: bool).
Inductive rearm := RNone | RSelf | RAll.
Inductive act := Cont | Stop (r: rearm) (o: out) | Abort.

Section Scan.
  Variable St : Type.
  Variable slots   : St -> nat.
  Variable awaited : St -> nat -> bool.
  Variable member  : St -> nat -> nat.
  Variable handle  : St -> nat -> ans -> St * act * list ev.
  Variable clear_first any_per_iter : bool.
  Variable order   : St -> option (list nat * St).
  Variable pre_exit : St -> option out.
  Variable pre_any : St -> bool.
  Variable finish  : St -> St * option out.
  Variable after_stop : St -> St.
  Variable drop_all : St -> list ev.
  Variable final : out -> bool.
  Variable Q : St -> Prop.

  Record world := {
    cs : St;
    sel : bool; bits : list bool; parent : option nat;
    scripts : list (list step); handed : list (list wk);
    nparents : nat; finished : bool; dropped : bool; gone : bool;
    g_out : bool; g_fired : list bool; g_polled : list bool; g_lastpend : list bool;
    g_bad16 : bool; g_retpend : bool; g_quiet : bool;
    tr : list ev;
  }.
  Definition N (w: world) := slots (cs w).

  (* setters (no record eta in Coq: every update goes through one of these) *)
  Definition set_cs w s := {| cs := s; sel := sel w; bits := bits w; parent := parent w; scripts := scripts w; handed := handed w;
    nparents := nparents w; finished := finished w; dropped := dropped w; gone := gone w; g_out := g_out w; g_fired := g_fired w;
    g_polled := g_polled w; g_lastpend := g_lastpend w; g_bad16 := g_bad16 w; g_retpend := g_retpend w; g_quiet := g_quiet w; tr := tr w |}.
  Definition set_bits w b := {| cs := cs w; sel := sel w; bits := b; parent := parent w; scripts := scripts w; handed := handed w;
    nparents := nparents w; finished := finished w; dropped := dropped w; gone := gone w; g_out := g_out w; g_fired := g_fired w;
    g_polled := g_polled w; g_lastpend := g_lastpend w; g_bad16 := g_bad16 w; g_retpend := g_retpend w; g_quiet := g_quiet w; tr := tr w |}.
  Definition set_oracle w sc h := {| cs := cs w; sel := sel w; bits := bits w; parent := parent w; scripts := sc; handed := h;
    nparents := nparents w; finished := finished w; dropped := dropped w; gone := gone w; g_out := g_out w; g_fired := g_fired w;
    g_polled := g_polled w; g_lastpend := g_lastpend w; g_bad16 := g_bad16 w; g_retpend := g_retpend w; g_quiet := g_quiet w; tr := tr w |}.
  Definition set_flags w f d g := {| cs := cs w; sel := sel w; bits := bits w; parent := parent w; scripts := scripts w; handed := handed w;
    nparents := nparents w; finished := f; dropped := d; gone := g; g_out := g_out w; g_fired := g_fired w;
    g_polled := g_polled w; g_lastpend := g_lastpend w; g_bad16 := g_bad16 w; g_retpend := g_retpend w; g_quiet := g_quiet w; tr := tr w |}.
  Definition set_ret w b := {| cs := cs w; sel := sel w; bits := bits w; parent := parent w; scripts := scripts w; handed := handed w;
    nparents := nparents w; finished := finished w; dropped := dropped w; gone := gone w; g_out := g_out w; g_fired := g_fired w;
    g_polled := g_polled w; g_lastpend := g_lastpend w; g_bad16 := g_bad16 w; g_retpend := b; g_quiet := true; tr := tr w |}.
  (* a poll that returns before it registers the caller's waker (the pre-loop exit): a new poll has begun, so the "woken since the poll began"
     ghost is reset like in begin_poll, but the stored parent waker stays the old one *)
  Definition set_np w np := {| cs := cs w; sel := sel w; bits := bits w; parent := parent w; scripts := scripts w; handed := handed w;
    nparents := np; finished := finished w; dropped := dropped w; gone := gone w; g_out := false; g_fired := g_fired w;
    g_polled := g_polled w; g_lastpend := g_lastpend w; g_bad16 := g_bad16 w; g_retpend := g_retpend w; g_quiet := g_quiet w; tr := tr w |}.
  Definition emit w es := {| cs := cs w; sel := sel w; bits := bits w; parent := parent w; scripts := scripts w; handed := handed w;
    nparents := nparents w; finished := finished w; dropped := dropped w; gone := gone w; g_out := g_out w; g_fired := g_fired w;
    g_polled := g_polled w; g_lastpend := g_lastpend w; g_bad16 := g_bad16 w; g_retpend := g_retpend w; g_quiet := g_quiet w; tr := tr w ++ es |}.
  (* a new poll begins: set_waker, the executor has consumed the previous wake-up *)
  Definition begin_poll w pid np := {| cs := cs w; sel := sel w; bits := bits w; parent := Some pid; scripts := scripts w; handed := handed w;
    nparents := np; finished := finished w; dropped := dropped w; gone := gone w; g_out := false; g_fired := g_fired w;
    g_polled := g_polled w; g_lastpend := g_lastpend w; g_bad16 := g_bad16 w; g_retpend := g_retpend w; g_quiet := g_quiet w; tr := tr w ++ [EB pid] |}.
  (* slot j fires and finds its bit clear: set it, wake the parent *)
  Definition fire_set w j p := {| cs := cs w; sel := sel w; bits := upd (bits w) j true; parent := parent w; scripts := scripts w; handed := handed w;
    nparents := nparents w; finished := finished w; dropped := dropped w; gone := gone w; g_out := true; g_fired := upd (g_fired w) j true;
    g_polled := g_polled w; g_lastpend := g_lastpend w; g_bad16 := g_bad16 w; g_retpend := g_retpend w; g_quiet := g_quiet w; tr := tr w ++ p |}.
  Definition fire_noop w j := {| cs := cs w; sel := sel w; bits := bits w; parent := parent w; scripts := scripts w; handed := handed w;
    nparents := nparents w; finished := finished w; dropped := dropped w; gone := gone w; g_out := g_out w; g_fired := upd (g_fired w) j true;
    g_polled := g_polled w; g_lastpend := g_lastpend w; g_bad16 := g_bad16 w; g_retpend := g_retpend w; g_quiet := g_quiet w; tr := tr w |}.
  (* child in slot i is about to be polled: bit cleared (selective), ghosts reset *)
  Definition enter_child w i (b: list bool) (lp bad: bool) := {| cs := cs w; sel := sel w; bits := b; parent := parent w; scripts := scripts w; handed := handed w;
    nparents := nparents w; finished := finished w; dropped := dropped w; gone := gone w; g_out := g_out w; g_fired := upd (g_fired w) i false;
    g_polled := upd (g_polled w) i true; g_lastpend := upd (g_lastpend w) i lp; g_bad16 := g_bad16 w || bad; g_retpend := g_retpend w; g_quiet := g_quiet w; tr := tr w |}.

  (* ---------- firing ---------- *)
  Definition do_fire (w: world) (j: nat) : world :=
    if j <? N w then
      if nth j (bits w) true then fire_noop w j
      else fire_set w j (match parent w with Some p => [EW p] | None => [] end)
    else w.
  (* the waker member c received at its k-th poll is invoked *)
  Definition fire_handle (w: world) (c k: nat) : world :=
    match nth_error (nth c (handed w) []) k with
    | None => w
    | Some (WPar pid) => emit w [EF c k; EW pid]
    | Some (WSub slot) => do_fire (emit w [EF c k]) slot
    end.
  Fixpoint fires_of (w: world) (me: nat) (hs: list href) : world :=
    match hs with
    | [] => w
    | h :: r => let '(c, k) := match h with HSelf => (me, length (nth me (handed w) []) - 1) | HOf c k => (c, k) end in
                fires_of (fire_handle w c k) me r
    end.

  (* ---------- the loop ---------- *)
  Definition any_ready (w: world) := if sel w then existsb (fun b => b) (bits w) else true.
  Definition clear_bit (w: world) (i: nat) : world * bool :=
    if sel w then (if nth i (bits w) false then (set_bits w (upd (bits w) i false), true) else (w, false)) else (w, true).
  Definition apply_rearm (w: world) (r: rearm) (i: nat) : world :=
    if sel w then match r with
      | RNone => w | RSelf => set_bits w (upd (bits w) i true) | RAll => set_bits w (map (fun _ => true) (bits w)) end
    else w.
  Definition pop (w: world) (m: nat) : step * list (list step) :=
    match nth m (scripts w) [] with
    | [] => ({| fires := []; answer := APend |}, scripts w)
    | x :: rest => (x, upd (scripts w) m rest)
    end.

  Inductive vres := VCont (w: world) | VPending (w: world) | VReady (w: world) (o: out) | VAbort (w: world).

  (* w: the world after clear_bit; pid: current parent *)
  Definition poll_child (w: world) (i pid: nat) : vres :=
    let m := member (cs w) i in
    let wkr := if sel w then WSub i else WPar pid in
    let '(stp, sc') := pop w m in
    let bad := nth i (g_polled w) false && nth i (g_lastpend w) false && negb (nth i (g_fired w) false) in
    let w0 := set_oracle w sc' (upd (handed w) m (nth m (handed w) [] ++ [wkr])) in
    let w1 := emit (enter_child w0 i (bits w0) (is_pend (answer stp)) bad) [EC m wkr] in
    let w2 := fires_of w1 m (fires stp) in
    let '(s', a, eh) := handle (cs w2) i (answer stp) in
    let w3 := emit w2 (EAns (answer stp) :: eh) in
    match a with
    | Cont => VCont (set_cs w3 s')
    | Stop r o => VReady (apply_rearm (set_cs w3 s') r i) o
    | Abort => VAbort w3
    end.

  Definition visit (w: world) (i pid: nat) : vres :=
    if any_per_iter && negb (any_ready w) then VPending w else
    if clear_first then
      let '(w1, was) := clear_bit w i in
      if was then (if awaited (cs w) i then poll_child w1 i pid else VCont w1) else VCont w
    else
      if awaited (cs w) i then
        let '(w1, was) := clear_bit w i in if was then poll_child w1 i pid else VCont w
      else VCont w.

  Fixpoint scan (w: world) (is: list nat) (pid: nat) : vres :=
    match is with
    | [] => VCont w
    | i :: rest => match visit w i pid with VCont w' => scan w' rest pid | r => r end
    end.

  Definition mark_final (w: world) (o: out) := if final o then set_flags w true (dropped w) (gone w) else w.
  (* the harness drops a combinator whose poll unwound *)
  Definition unwind (w: world) := set_flags (set_ret (emit w (ED :: drop_all (cs w) ++ [EEndX])) false) true true true.

  Definition poll (w: world) (pid np: nat) : world :=
    match pre_exit (cs w) with
    | Some o => mark_final (set_ret (emit (set_np w np) [EB pid; EEndR o]) false) o
    | None =>
      let w0 := begin_poll w pid np in
      if pre_any (cs w0) && negb (any_ready w0) then set_ret (emit w0 [EEndP]) true else
      match order (cs w0) with
      | None => unwind w0
      | Some (is, s1) =>
        match scan (set_cs w0 s1) is pid with
        | VCont w1 => let '(s2, o) := finish (cs w1) in
                      match o with
                      | Some x => mark_final (set_ret (emit (set_cs w1 s2) [EEndR x]) false) x
                      | None => set_ret (emit (set_cs w1 s2) [EEndP]) true
                      end
        | VPending w1 => set_ret (emit w1 [EEndP]) true
        | VReady w1 o => mark_final (set_ret (emit (set_cs w1 (after_stop (cs w1))) [EEndR o]) false) o
        | VAbort w1 => unwind w1
        end
      end
    end.

  (* ================= proofs (selective strategy) ================= *)
  Hypothesis handle_slots : forall s i a, slots (fst (fst (handle s i a))) = slots s.
  Hypothesis handle_cont_other : forall s i a s' e, handle s i a = (s', Cont, e) -> forall j, j <> i -> awaited s' j = awaited s j.
  Hypothesis handle_cont_self  : forall s i a s' e, handle s i a = (s', Cont, e) -> awaited s' i = true -> awaited s i = true.
  Hypothesis handle_stop_other : forall s i a s' r o e, Q s -> awaited s i = true -> handle s i a = (s', Stop r o, e) -> r <> RAll ->
     forall k, k <> i -> awaited s' k = awaited s k.
  Hypothesis handle_stop_self : forall s i a s' o e, handle s i a = (s', Stop RSelf o, e) -> is_pend a = false.
  Hypothesis handle_stop_all : forall s i a s' o e, Q s -> awaited s i = true -> handle s i a = (s', Stop RAll o, e) ->
     is_pend a = false /\ forall k, k <> i -> awaited s k = false.
  Hypothesis handle_unawait : forall s i a, awaited s i = true -> awaited (fst (fst (handle s i a))) i = false -> is_pend a = false.
  Hypothesis handle_abort : forall s i a s' e, handle s i a = (s', Abort, e) -> s' = s.
  Hypothesis Q_handle : forall s i a, Q s -> awaited s i = true -> i < slots s -> Q (fst (fst (handle s i a))).
  Hypothesis order_slots : forall s is s1, order s = Some (is, s1) -> slots s1 = slots s.
  Hypothesis order_aw    : forall s is s1, order s = Some (is, s1) -> forall i, awaited s1 i = awaited s i.
  Hypothesis order_bound : forall s is s1, Q s -> order s = Some (is, s1) -> forall i, In i is -> i < slots s.
  Hypothesis order_cover : forall s is s1, Q s -> order s = Some (is, s1) -> forall i, i < slots s -> awaited s i = true -> In i is.
  Hypothesis Q_order : forall s is s1, Q s -> order s = Some (is, s1) -> Q s1.
  Hypothesis finish_slots : forall s, slots (fst (finish s)) = slots s.
  Hypothesis finish_aw : forall s i, Q s -> awaited (fst (finish s)) i = awaited s i.
  Hypothesis Q_finish : forall s, Q s -> Q (fst (finish s)).
  Hypothesis after_slots : forall s, slots (after_stop s) = slots s.
  Hypothesis after_aw : forall s i, Q s -> awaited (after_stop s) i = awaited s i.
  Hypothesis Q_after : forall s, Q s -> Q (after_stop s).

  Record wf (w: world) : Prop := {
    wf_sel : sel w = true;
    wf_bits : length (bits w) = N w; wf_fired : length (g_fired w) = N w;
    wf_polled : length (g_polled w) = N w; wf_lastpend : length (g_lastpend w) = N w }.
  Definition bit w i := nth i (bits w) false.
  Definition aw w i := awaited (cs w) i.
  Definition fired w i := nth i (g_fired w) false.
  Definition polled w i := nth i (g_polled w) false.
  Definition lastpend w i := nth i (g_lastpend w) false.
  Definition I2 w := forall i, i < N w -> aw w i = true -> fired w i = true -> bit w i = true.
  Definition I3 w := forall i, i < N w -> aw w i = true -> polled w i = false -> bit w i = true.
  Definition I4 w := forall i, i < N w -> aw w i = true -> polled w i = true -> lastpend w i = true ->
                       bit w i = true -> fired w i = true.
  Definition I5 w := forall i, i < N w -> aw w i = false -> lastpend w i = false.
  Definition K w := wf w /\ Q (cs w) /\ I2 w /\ I3 w /\ I4 w /\ I5 w /\ g_bad16 w = false.
  Definition J (vis: list nat) w := K w /\
    (forall i, In i vis -> i < N w -> aw w i = true -> bit w i = true -> g_out w = true) /\
    (forall i, In i vis -> i < N w -> aw w i = true -> polled w i = true).
  Definition Bnd w := forall i, i < N w -> aw w i = true -> bit w i = true -> polled w i = true -> g_out w = true.
  Definition AllPolled w := forall i, i < N w -> aw w i = true -> polled w i = true.

  Lemma nth_true_false (l: list bool) i : i < length l -> nth i l true = nth i l false.
  Proof. intros; apply nth_indep; auto. Qed.
  Lemma nth_map_true (l: list bool) k : k < length l -> nth k (map (fun _ : bool => true) l) false = true.
  Proof. revert k; induction l; destruct k; cbn; intros; auto; try lia. apply IHl; lia. Qed.

  Ltac nthupd :=
    repeat match goal with
    | H : context[nth ?i (upd _ ?i _) _] |- _ => rewrite nth_upd_same in H by lia
    | |- context[nth ?i (upd _ ?i _) _] => rewrite nth_upd_same by lia
    | Hne : ?j <> ?i, H : context[nth ?i (upd _ ?j _) _] |- _ => rewrite (nth_upd_other _ j i) in H by exact Hne
    | Hne : ?j <> ?i |- context[nth ?i (upd _ ?j _) _] => rewrite (nth_upd_other _ j i) by exact Hne
    end.
  Ltac unf := unfold J in *; unfold K in *; unfold I2, I3, I4, I5, Bnd, AllPolled in *;
              unfold bit, aw, fired, polled, lastpend in *; unfold N in *.
  Ltac dK H := let Hwf := fresh "Hwf" in let HQ := fresh "HQ" in let H2 := fresh "H2" in let H3 := fresh "H3" in
               let H4 := fresh "H4" in let H5 := fresh "H5" in let Hb := fresh "Hb" in
               destruct H as (Hwf & HQ & H2 & H3 & H4 & H5 & Hb); destruct Hwf as [Ws Wb Wf Wp Wl].

  (* passive updates *)
  Lemma K_emit w es : K w -> K (emit w es).
  Proof. intros HK. dK HK. unf. cbn. split; [constructor; auto|]. repeat split; auto. Qed.
  Lemma K_np w np : K w -> K (set_np w np).
  Proof. intros HK. dK HK. unf. cbn. split; [constructor; auto|]. repeat split; auto. Qed.
  Lemma K_oracle w sc h : K w -> K (set_oracle w sc h).
  Proof. intros HK. dK HK. unf. cbn. split; [constructor; auto|]. repeat split; auto. Qed.
  Lemma K_flags w f d g : K w -> K (set_flags w f d g).
  Proof. intros HK. dK HK. unf. cbn. split; [constructor; auto|]. repeat split; auto. Qed.
  Lemma K_ret w b : K w -> K (set_ret w b).
  Proof. intros HK. dK HK. unf. cbn. split; [constructor; auto|]. repeat split; auto. Qed.
  Lemma K_cs w s : K w -> Q s -> slots s = N w -> (forall i, awaited s i = aw w i) -> K (set_cs w s).
  Proof.
    intros HK HQs Hs Ha. dK HK. unf. cbn. rewrite Hs.
    split; [constructor; unfold N; cbn; congruence|]. split; [auto|].
    split; [|split; [|split; [|split]]]; auto; intros i Hi; rewrite Ha; auto.
  Qed.

  Lemma do_fire_K w j : K w -> K (do_fire w j) /\ N (do_fire w j) = N w /\ cs (do_fire w j) = cs w
      /\ g_polled (do_fire w j) = g_polled w /\ g_retpend (do_fire w j) = g_retpend w /\ g_quiet (do_fire w j) = g_quiet w
      /\ g_lastpend (do_fire w j) = g_lastpend w
      /\ (g_out w = true -> g_out (do_fire w j) = true)
      /\ (forall i, i < N w -> bit (do_fire w j) i = true -> bit w i = false -> g_out (do_fire w j) = true).
  Proof.
    intros HK. dK HK.
    unfold do_fire. destruct (j <? N w) eqn:Ej; [apply Nat.ltb_lt in Ej |].
    2:{ split; [split; [constructor; auto|]; repeat split; auto|]. repeat split; auto. intros; congruence. }
    rewrite nth_true_false by lia.
    destruct (nth j (bits w) false) eqn:Eb.
    - split.
      { unf. cbn. split; [constructor; unfold N; cbn; rewrite ?upd_length; auto|].
        split; [auto|]. split; [|split; [|split; [|split]]]; auto.
        - intros i Hi Ha Hfi. destruct (Nat.eq_dec j i) as [->|Hne]; auto. nthupd. auto.
        - intros i Hi Ha Hp Hl Hbi. destruct (Nat.eq_dec j i) as [->|Hne]; nthupd; auto. }
      repeat (split; [reflexivity|]).
      split; cbn; [auto|]. unfold bit; cbn. intros; congruence.
    - split.
      { unf. cbn. split; [constructor; unfold N; cbn; rewrite ?upd_length; auto|].
        split; [auto|]. split; [|split; [|split; [|split]]]; auto.
        - intros i Hi Ha Hfi. destruct (Nat.eq_dec j i) as [->|Hne]; nthupd; auto.
        - intros i Hi Ha Hpi. destruct (Nat.eq_dec j i) as [->|Hne]; nthupd; auto.
        - intros i Hi Ha Hp Hl Hbi. destruct (Nat.eq_dec j i) as [->|Hne]; nthupd; auto. }
      repeat (split; [reflexivity|]).
      split; cbn; intros; reflexivity.
  Qed.

  Lemma do_fire_J vis w j : J vis w -> J vis (do_fire w j) /\ N (do_fire w j) = N w /\ cs (do_fire w j) = cs w
      /\ g_lastpend (do_fire w j) = g_lastpend w.
  Proof.
    intros (HK & HB & HP).
    destruct (do_fire_K w j HK) as (HK' & HN & HC & HPo & HR & HQu & HL & Hout & Hnew).
    split; [|auto]. split; [auto|]. unfold aw, polled, N in *. rewrite HC, HPo. split; [|auto].
    intros i Hv Hi Ha Hbi. destruct (bit w i) eqn:Eo.
    - apply Hout. eapply HB; eauto.
    - eapply Hnew; eauto.
  Qed.

  Lemma J_emit vis w es : J vis w -> J vis (emit w es).
  Proof. intros (HK & HB & HP). split; [apply K_emit; auto|]. split; auto. Qed.

  Lemma fire_handle_J vis w c k : J vis w -> J vis (fire_handle w c k) /\ N (fire_handle w c k) = N w
      /\ cs (fire_handle w c k) = cs w /\ g_lastpend (fire_handle w c k) = g_lastpend w.
  Proof.
    intros HJ. unfold fire_handle. destruct (nth_error (nth c (handed w) []) k) as [[slot|pid]|]; auto.
    - destruct (do_fire_J vis (emit w [EF c k]) slot (J_emit vis w _ HJ)) as (A & B & C & D). auto.
    - split; [apply J_emit; auto|]. auto.
  Qed.

  Lemma fires_of_J vis w me hs : J vis w -> J vis (fires_of w me hs) /\ N (fires_of w me hs) = N w
      /\ cs (fires_of w me hs) = cs w /\ g_lastpend (fires_of w me hs) = g_lastpend w.
  Proof.
    revert w. induction hs as [|h r IH]; intros w HJ; cbn [fires_of]; auto.
    destruct (match h with HSelf => (me, length (nth me (handed w) []) - 1) | HOf c k => (c, k) end) as [c k].
    destruct (fire_handle_J vis w c k HJ) as (A & B & C & D).
    destruct (IH _ A) as (A' & B' & C' & D'). split; auto. repeat split; congruence.
  Qed.

  Definition post (vis: list nat) (i: nat) (w: world) (r: vres) : Prop :=
    match r with
    | VCont w' => J (i :: vis) w' /\ N w' = N w /\ (forall k, aw w' k = true -> aw w k = true)
    | VPending w' => K w' /\ N w' = N w /\ Bnd w' /\ AllPolled w'
    | VReady w' _ => K w' /\ N w' = N w
    | VAbort w' => K w' /\ N w' = N w
    end.

  Lemma poll_child_J vis w i pid : i < N w -> J vis w -> aw w i = true -> bit w i = true ->
    post vis i w (poll_child (set_bits w (upd (bits w) i false)) i pid).
  Proof.
    intros Hi HJ Haw Hbit. unfold poll_child.
    set (wc := set_bits w (upd (bits w) i false)).
    destruct (pop wc (member (cs wc) i)) as [stp sc'].
    match goal with |- context[fires_of ?W _ _] => set (w1 := W) end.
    assert (HJ1 : J (i :: vis) w1).
    { destruct HJ as (HK & HB & HP). dK HK.
      unf. cbn. split; [split; [constructor; unfold N; cbn; rewrite ?upd_length; auto|]|].
      - split; [auto|]. split; [|split; [|split; [|split]]].
        + intros k Hk Ha Hfk. destruct (Nat.eq_dec i k) as [->|Hne]; nthupd; [discriminate|auto].
        + intros k Hk Ha Hpk. destruct (Nat.eq_dec i k) as [->|Hne]; nthupd; [discriminate|auto].
        + intros k Hk Ha Hp Hl Hbk. destruct (Nat.eq_dec i k) as [->|Hne]; nthupd; [discriminate|auto].
        + intros k Hk Ha. destruct (Nat.eq_dec i k) as [->|Hne]; [congruence|]. nthupd. auto.
        + rewrite Hb. cbn.
          destruct (nth i (g_polled w) false) eqn:Ep; auto. destruct (nth i (g_lastpend w) false) eqn:El; auto.
          cbn. rewrite (H4 i); auto.
      - split.
        + intros k Hv Hk Ha Hbk. destruct (Nat.eq_dec i k) as [->|Hne]; nthupd; [discriminate|].
          destruct Hv as [->|Hv]; [congruence|]. apply (HB k); auto.
        + intros k Hv Hk Ha. destruct (Nat.eq_dec i k) as [->|Hne]; nthupd; auto.
          destruct Hv as [->|Hv]; [congruence|]. apply (HP k); auto. }
    destruct (fires_of_J (i :: vis) w1 (member (cs wc) i) (fires stp) HJ1) as (HJ2 & HN2 & HC2 & HL2).
    set (w2 := fires_of w1 (member (cs wc) i) (fires stp)) in *.
    assert (HN1 : N w1 = N w) by reflexivity.
    assert (HC1 : cs w1 = cs w) by reflexivity.
    assert (HNw2 : N w2 = N w) by congruence.
    assert (Hlp : lastpend w2 i = is_pend (answer stp)).
    { unfold lastpend. rewrite HL2. cbn. apply nth_upd_same. destruct HJ as ((Hwf' & _) & _). destruct Hwf'. unfold N in *; lia. }
    pose proof (handle_slots (cs w2) i (answer stp)) as Hsl0.
    pose proof (handle_unawait (cs w2) i (answer stp)) as Hun.
    assert (HQ2 : Q (fst (fst (handle (cs w2) i (answer stp))))).
    { apply Q_handle; [apply HJ2 | rewrite HC2, HC1; exact Haw | unfold N in *; congruence]. }
    destruct (handle (cs w2) i (answer stp)) as [[s' a] eh] eqn:Eh. cbn [fst] in *.
    assert (Hsl : slots s' = N w) by (unfold N in *; congruence).
    assert (Hawi : awaited (cs w2) i = true) by (rewrite HC2, HC1; exact Haw).
    set (w3 := emit w2 (EAns (answer stp) :: eh)).
    assert (HJ3 : J (i :: vis) w3) by (apply J_emit; auto).
    assert (HC3 : cs w3 = cs w2) by reflexivity.
    assert (HL3 : g_lastpend w3 = g_lastpend w2) by reflexivity.
    clearbody w3.
    destruct HJ3 as (HK3 & HB & HP). pose proof HK3 as HK3'. pose proof HC3 as HC3'. dK HK3. rewrite HC3 in *.
    assert (Hlp3 : nth i (g_lastpend w3) false = is_pend (answer stp)) by (rewrite HL3; exact Hlp).
    assert (HN3 : slots (cs w2) = N w) by (unfold N in *; congruence).
    assert (HI5same : forall k, k <> i -> awaited s' k = awaited (cs w2) k ->
                      k < slots (cs w2) -> awaited s' k = false -> nth k (g_lastpend w3) false = false).
    { intros k Hne Heq Hk Hak. apply H5; [unfold N; rewrite HC3; exact Hk | unfold aw; rewrite HC3; congruence]. }
    assert (HI5self : awaited s' i = false -> nth i (g_lastpend w3) false = false).
    { intros Hak. rewrite Hlp3. apply Hun; auto. }
    unfold N, aw, bit, fired, polled, lastpend in *. rewrite HC3 in *.
    destruct a as [|r o|]; cbn [post].
    - assert (Haw' : forall k, awaited s' k = true -> awaited (cs w2) k = true).
      { intros k Hk. destruct (Nat.eq_dec k i) as [->|Hne].
        - eapply handle_cont_self; eauto.
        - erewrite <- handle_cont_other; eauto. }
      split; [|split; [unfold N; cbn; congruence | unfold aw; cbn; intros k Hk; specialize (Haw' k Hk); rewrite HC2 in Haw'; exact Haw']].
      unf. cbn. rewrite Hsl.
      split; [split; [constructor; unfold N; cbn; congruence|]|].
      + split; [auto|]. split; [|split; [|split; [|split]]]; auto.
        * intros; apply H2; rewrite ?HC3; auto; lia.
        * intros; apply H3; rewrite ?HC3; auto; lia.
        * intros; apply H4; rewrite ?HC3; auto; lia.
        * intros k Hk Hak. destruct (Nat.eq_dec k i) as [->|Hne]; [apply HI5self; auto|].
          apply HI5same; auto; try lia. eapply handle_cont_other; eauto.
      + split; intros k Hv Hk Ha; [intros Hbk; apply (HB k) | apply (HP k)]; rewrite ?HC3; auto; lia.
    - split; [|unfold N; cbn; unfold apply_rearm; cbn; rewrite Ws; destruct r; cbn; congruence].
      unfold apply_rearm. cbn [sel set_cs]. rewrite Ws.
      destruct (match r with RAll => true | _ => false end) eqn:Er.
      + destruct r; try discriminate.
        destruct (handle_stop_all _ _ _ _ _ _ HQ Hawi Eh) as (Hnp & Hoth).
        assert (Hlast : forall k, k < slots (cs w2) -> nth k (g_lastpend w3) false = false).
        { intros k Hk. destruct (Nat.eq_dec k i) as [->|Hne]; [rewrite Hlp3; exact Hnp|].
          apply H5; unfold N, aw; rewrite ?HC3; [lia | apply Hoth; exact Hne]. }
        unf. cbn. rewrite Hsl.
        split; [constructor; unfold N; cbn; rewrite ?map_length; congruence|].
        split; [auto|]. split; [|split; [|split; [|split]]]; auto.
        * intros k Hk _ _. apply nth_map_true. lia.
        * intros k Hk _ _. apply nth_map_true. lia.
        * intros k Hk _ _ Hl. rewrite Hlast in Hl by lia. discriminate.
        * intros k Hk _. apply Hlast. lia.
      + assert (Hr : r <> RAll) by (destruct r; try discriminate; congruence).
        assert (Hoth := handle_stop_other _ _ _ _ _ _ _ HQ Hawi Eh Hr).
        assert (Haw' : forall k, awaited s' k = true -> awaited (cs w2) k = true).
        { intros k Hk. destruct (Nat.eq_dec k i) as [->|Hne]; auto. rewrite <- Hoth; auto. }
        set (wr := match r with RNone => set_cs w3 s' | RSelf => set_bits (set_cs w3 s') (upd (bits (set_cs w3 s')) i true)
                   | RAll => set_bits (set_cs w3 s') (map (fun _ => true) (bits (set_cs w3 s'))) end).
        assert (Hbits : forall k, nth k (bits w3) false = true -> nth k (bits wr) false = true).
        { intros k Hk. unfold wr. destruct r; cbn; [exact Hk | | congruence].
          destruct (Nat.eq_dec i k) as [->|Hne]; [apply nth_upd_same; lia | rewrite nth_upd_other; auto]. }
        assert (Hrest : cs wr = s' /\ g_fired wr = g_fired w3 /\ g_polled wr = g_polled w3 /\ g_lastpend wr = g_lastpend w3
                        /\ g_bad16 wr = g_bad16 w3 /\ sel wr = sel w3 /\ length (bits wr) = length (bits w3)).
        { unfold wr. destruct r; cbn; rewrite ?upd_length; repeat split; auto. congruence. }
        destruct Hrest as (R1 & R2 & R3 & R4 & R5 & R6 & R7).
        unf. rewrite R1, R2, R3, R4, R5, Hsl.
        split; [constructor; unfold N; rewrite ?R1, ?R2, ?R3, ?R4, ?R6, ?R7; congruence|].
        split; [auto|]. split; [|split; [|split; [|split]]]; auto.
        * intros k Hk Ha Hf. apply Hbits, H2; rewrite ?HC3; auto; lia.
        * intros k Hk Ha Hp'. apply Hbits, H3; rewrite ?HC3; auto; lia.
        * intros k Hk Ha Hp' Hl Hbk. unfold wr in Hbk. destruct r; cbn in Hbk; try congruence.
          -- apply H4; rewrite ?HC3; auto; lia.
          -- destruct (Nat.eq_dec i k) as [->|Hne].
             ++ exfalso. pose proof (handle_stop_self _ _ _ _ _ _ Eh) as Hnp. rewrite Hlp3 in Hl. congruence.
             ++ rewrite nth_upd_other in Hbk by auto. apply H4; rewrite ?HC3; auto; lia.
        * intros k Hk Hak. destruct (Nat.eq_dec k i) as [->|Hne]; [apply HI5self; auto|].
          apply HI5same; auto; lia.
    - apply handle_abort in Eh. subst s'. split; [exact HK3'|]. unfold N in *. congruence.
  Qed.

  Lemma J_skip vis w i : J vis w ->
    (aw w i = true -> bit w i = true -> g_out w = true) ->
    (aw w i = true -> polled w i = true) -> J (i :: vis) w.
  Proof.
    intros (HK & HB & HP) H1 H2. split; [exact HK|]. split.
    - intros k [->|Hv] Hk Ha Hb; eauto.
    - intros k [->|Hv] Hk Ha; eauto.
  Qed.

  Lemma K_nobits_polled w : K w -> any_ready w = false -> Bnd w /\ AllPolled w.
  Proof.
    intros HK Ea. dK HK. unfold any_ready in Ea. rewrite Ws in Ea.
    assert (Hno : forall k, k < N w -> bit w k = false).
    { intros k Hk. unfold bit. destruct (nth k (bits w) false) eqn:E; auto. exfalso.
      assert (existsb (fun b => b) (bits w) = true).
      { apply existsb_exists. exists true. split; auto. rewrite <- E. apply nth_In. lia. }
      congruence. }
    split.
    - intros k Hk _ Hbk. rewrite Hno in Hbk; auto. discriminate.
    - intros k Hk Ha. destruct (polled w k) eqn:Ep; auto.
      specialize (H3 k Hk Ha Ep). rewrite Hno in H3; auto.
  Qed.

  Lemma K_clear_unawaited w i : K w -> i < N w -> aw w i = false -> K (set_bits w (upd (bits w) i false)).
  Proof.
    intros HK Hi Ha. dK HK. unf. cbn.
    split; [constructor; unfold N; cbn; rewrite ?upd_length; auto|].
    split; [auto|]. split; [|split; [|split; [|split]]]; auto.
    - intros k Hk Hak Hf. destruct (Nat.eq_dec i k) as [->|Hne]; [congruence|]. nthupd. auto.
    - intros k Hk Hak Hp. destruct (Nat.eq_dec i k) as [->|Hne]; [congruence|]. nthupd. auto.
    - intros k Hk Hak Hp Hl Hbk. destruct (Nat.eq_dec i k) as [->|Hne]; [congruence|]. nthupd. auto.
  Qed.

  Lemma visit_J vis w i pid : i < N w -> J vis w -> post vis i w (visit w i pid).
  Proof.
    intros Hi HJ. unfold visit.
    assert (Hsel : sel w = true) by apply HJ.
    destruct (any_per_iter && negb (any_ready w)) eqn:Eany.
    { apply andb_true_iff in Eany as [_ Ea]. apply negb_true_iff in Ea. cbn [post].
      destruct HJ as (HK & _). destruct (K_nobits_polled w HK Ea). repeat split; auto; apply HK. }
    assert (Hskip_clear : nth i (bits w) false = false -> J (i :: vis) w).
    { intros Eb. apply J_skip; auto.
      - unfold bit; intros; congruence.
      - intros Ha. destruct HJ as ((_ & _ & _ & H3 & _) & _). destruct (polled w i) eqn:Ep; auto.
        specialize (H3 i Hi Ha Ep). unfold bit in H3. congruence. }
    unfold clear_bit. rewrite Hsel.
    destruct clear_first.
    - destruct (nth i (bits w) false) eqn:Eb.
      + destruct (awaited (cs w) i) eqn:Ea.
        * apply poll_child_J; auto.
        * cbn [post]. split; [|split; [reflexivity|auto]].
          destruct HJ as (HK & HB & HP). split; [apply K_clear_unawaited; auto|].
          unfold aw, bit, polled, N in *. cbn. split.
          -- intros k Hv Hk Hak Hbk. destruct (Nat.eq_dec i k) as [->|Hne]; [congruence|]. nthupd.
             destruct Hv as [->|Hv]; [congruence|]. eauto.
          -- intros k [->|Hv] Hk Hak; [congruence|eauto].
      + cbn [post]. split; [|split; [reflexivity|auto]]. auto.
    - destruct (awaited (cs w) i) eqn:Ea.
      + destruct (nth i (bits w) false) eqn:Eb.
        * apply poll_child_J; auto.
        * cbn [post]. split; [|split; [reflexivity|auto]]. auto.
      + cbn [post]. split; [|split; [reflexivity|auto]]. apply J_skip; auto; unfold aw; intros; congruence.
  Qed.

  Lemma scan_J vis w is pid : (forall i, In i is -> i < N w) -> J vis w ->
    match scan w is pid with
    | VCont w' => J (rev is ++ vis) w' /\ N w' = N w /\ (forall k, aw w' k = true -> aw w k = true)
    | VPending w' => K w' /\ N w' = N w /\ Bnd w' /\ AllPolled w'
    | VReady w' _ => K w' /\ N w' = N w
    | VAbort w' => K w' /\ N w' = N w
    end.
  Proof.
    revert vis w. induction is as [|i rest IH]; intros vis w Hin HJ; cbn [scan].
    - cbn. auto.
    - pose proof (visit_J vis w i pid (Hin i (or_introl eq_refl)) HJ) as Hv.
      destruct (visit w i pid) as [w'|w'|w' o|w']; cbn [post] in Hv; auto.
      destruct Hv as (HJ' & HN' & Hm').
      specialize (IH (i :: vis) w'). rewrite HN' in IH.
      assert (Hin' : forall j, In j rest -> j < N w) by (intros; apply Hin; right; auto).
      specialize (IH Hin' HJ').
      destruct (scan w' rest pid); cbn [rev]; rewrite <- ?app_assoc; cbn [app].
      + destruct IH as (A & B & C). split; [exact A|]. split; [congruence|]. intros k Hk. apply Hm', C, Hk.
      + destruct IH as (A & B & C). split; [exact A|]. split; [congruence|exact C].
      + destruct IH as (A & B). split; [exact A|congruence].
      + destruct IH as (A & B). split; [exact A|congruence].
  Qed.

  (* ------------- the invariant across operations ------------- *)
  Definition Inv w := K w /\ (g_retpend w = true -> Bnd w) /\ (g_retpend w = true -> g_quiet w = true -> AllPolled w).

  Lemma Inv_emit w es : Inv w -> Inv (emit w es).
  Proof. intros (HK & HR & HA). split; [apply K_emit; auto|]. split; auto. Qed.
  Lemma Inv_flags w f d g : Inv w -> Inv (set_flags w f d g).
  Proof. intros (HK & HR & HA). split; [apply K_flags; auto|]. split; auto. Qed.

  Lemma Inv_do_fire w j : Inv w -> Inv (do_fire w j).
  Proof.
    intros (HK & HR & HA).
    destruct (do_fire_K w j HK) as (HK' & HN & HC & HPo & HRe & HQu & HL & Hout & Hnew).
    split; auto. rewrite HRe, HQu. split.
    - intros Hr. specialize (HR Hr). unfold Bnd, aw, polled, N in *. rewrite HC, HPo. intros i Hi Ha Hb Hp.
      destruct (bit w i) eqn:Eo; [apply Hout; eapply HR; eauto | eapply Hnew; eauto].
    - intros Hr Hq. specialize (HA Hr Hq). unfold AllPolled, aw, polled, N in *. rewrite HC, HPo. auto.
  Qed.
  Lemma Inv_fire_handle w c k : Inv w -> Inv (fire_handle w c k).
  Proof.
    intros HI. unfold fire_handle. destruct (nth_error (nth c (handed w) []) k) as [[slot|pid]|]; auto.
    - apply Inv_do_fire, Inv_emit, HI.
    - apply Inv_emit, HI.
  Qed.

  Lemma K_unwind w : K w -> K (unwind w).
  Proof. intros HK. unfold unwind. apply K_flags, K_ret, K_emit, HK. Qed.
  Lemma K_mark_final w o : K w -> K (mark_final w o).
  Proof. intros HK. unfold mark_final. destruct (final o); auto. apply K_flags, HK. Qed.
  Lemma Inv_not_pending w : K w -> g_retpend w = false -> Inv w.
  Proof. intros HK Hr. split; auto. split; intros; congruence. Qed.
  Lemma mark_final_ret w o : g_retpend (mark_final w o) = g_retpend w.
  Proof. unfold mark_final. destruct (final o); reflexivity. Qed.

  Theorem Inv_poll w pid np : Inv w -> Inv (poll w pid np).
  Proof.
    intros (HK & _ & _). unfold poll.
    destruct (pre_exit (cs w)) as [o|].
    { apply Inv_not_pending; [apply K_mark_final, K_ret, K_emit, K_np, HK | rewrite mark_final_ret; reflexivity]. }
    set (w0 := begin_poll w pid np).
    assert (HK0 : K w0).
    { dK HK. unf. cbn. split; [constructor; auto|]. repeat split; auto. }
    destruct (pre_any (cs w0) && negb (any_ready w0)) eqn:Ee.
    - apply andb_true_iff in Ee as [_ Ea]. apply negb_true_iff in Ea.
      destruct (K_nobits_polled w0 HK0 Ea) as [HB HA].
      split; [apply K_ret, K_emit; auto|]. split; intros; auto.
    - destruct (order (cs w0)) as [[is s1]|] eqn:Eo.
      2:{ apply Inv_not_pending; [apply K_unwind; auto | reflexivity]. }
      assert (HQ0 : Q (cs w0)) by apply HK0.
      assert (Hs1 : slots s1 = N w0) by (eapply order_slots; eauto).
      assert (Ha1 : forall i, awaited s1 i = awaited (cs w0) i) by (eapply order_aw; eauto).
      assert (HQ1 : Q s1) by (eapply Q_order; eauto).
      assert (HJ0 : J [] (set_cs w0 s1)).
      { split; [apply K_cs; auto|]. split; intros i [] . }
      assert (Hin : forall i, In i is -> i < N (set_cs w0 s1)).
      { intros i Hi. unfold N; cbn. rewrite Hs1. apply (order_bound (cs w0) is s1 HQ0 Eo i Hi). }
      pose proof (scan_J [] (set_cs w0 s1) is pid Hin HJ0) as Hsc.
      destruct (scan (set_cs w0 s1) is pid) as [w1|w1|w1 o|w1].
      + destruct Hsc as ((HK1 & HB1 & HP1) & HN1 & Hm1). rewrite app_nil_r in *.
        assert (HQw1 : Q (cs w1)) by apply HK1.
        destruct (finish (cs w1)) as [s2 o] eqn:Ef.
        assert (Hs2 : slots s2 = N w1). { pose proof (finish_slots (cs w1)) as X. rewrite Ef in X. auto. }
        assert (Ha2 : forall i, awaited s2 i = aw w1 i). { intros i. pose proof (finish_aw (cs w1) i HQw1) as X. rewrite Ef in X. auto. }
        assert (HQ2 : Q s2). { pose proof (Q_finish (cs w1) HQw1) as X. rewrite Ef in X. auto. }
        destruct o as [x|].
        * apply Inv_not_pending; [apply K_mark_final, K_ret, K_emit, K_cs; auto | rewrite mark_final_ret; reflexivity].
        * split; [apply K_ret, K_emit, K_cs; auto|].
          assert (Hcov : forall i, i < N w1 -> aw w1 i = true -> In i (rev is)).
          { intros i Hi Ha. apply in_rev. rewrite rev_involutive. apply (order_cover (cs w0) is s1 HQ0 Eo).
            - unfold N in *; cbn in *. congruence.
            - specialize (Hm1 i Ha). unfold aw in Hm1; cbn in Hm1. rewrite Ha1 in Hm1. exact Hm1. }
          split; [intros _|intros _ _].
          -- unfold Bnd, aw, bit, polled, N in *. cbn. rewrite Hs2. intros i Hi Ha Hb Hp. rewrite Ha2 in Ha. eapply HB1; eauto.
          -- unfold AllPolled, aw, polled, N in *. cbn. rewrite Hs2. intros i Hi Ha. rewrite Ha2 in Ha. eapply HP1; eauto.
      + destruct Hsc as (HK1 & HN1 & HB1 & HA1). split; [apply K_ret, K_emit; auto|]. split; intros; auto.
      + destruct Hsc as (HK1 & HN1). assert (HQw1 : Q (cs w1)) by apply HK1.
        apply Inv_not_pending; [|rewrite mark_final_ret; reflexivity].
        apply K_mark_final, K_ret, K_emit, K_cs; auto; [apply after_slots | intros i; apply after_aw; auto].
      + destruct Hsc as (HK1 & HN1). apply Inv_not_pending; [apply K_unwind; auto | reflexivity].
  Qed.

  (* ------------- instance invariants over (state, remaining scripts) ------------- *)
  Section InstInv.
    Variable P : St -> list (list step) -> Prop.
    Hypothesis P_handle : forall s sc i stp sc', awaited s i = true -> i < slots s ->
        (stp, sc') = (match nth (member s i) sc [] with [] => ({| fires := []; answer := APend |}, sc) | x :: rest => (x, upd sc (member s i) rest) end) ->
        P s sc -> P (fst (fst (handle s i (answer stp)))) sc'.
    Hypothesis P_order  : forall s is s1 sc, order s = Some (is, s1) -> P s sc -> P s1 sc.
    Hypothesis P_finish : forall s sc, P s sc -> P (fst (finish s)) sc.
    Hypothesis P_after  : forall s sc, P s sc -> P (after_stop s) sc.
    Hypothesis P_Q : forall s sc, P s sc -> Q s.

    Definition PW (w: world) := P (cs w) (scripts w).
    Definition vres_P (r: vres) : Prop := match r with VCont w | VPending w | VReady w _ | VAbort w => PW w end.
    Definition vres_N (n: nat) (r: vres) : Prop := match r with VCont w | VPending w | VReady w _ | VAbort w => N w = n end.

    Lemma do_fire_pass w j : cs (do_fire w j) = cs w /\ scripts (do_fire w j) = scripts w /\ handed (do_fire w j) = handed w.
    Proof. unfold do_fire. destruct (j <? N w); auto. destruct (nth j (bits w) true); auto. Qed.
    Lemma fire_handle_pass w c k : cs (fire_handle w c k) = cs w /\ scripts (fire_handle w c k) = scripts w.
    Proof.
      unfold fire_handle. destruct (nth_error (nth c (handed w) []) k) as [[slot|pid]|]; auto.
      destruct (do_fire_pass (emit w [EF c k]) slot) as (A & B & _). auto.
    Qed.
    Lemma fires_of_pass w me hs : cs (fires_of w me hs) = cs w /\ scripts (fires_of w me hs) = scripts w.
    Proof.
      revert w. induction hs as [|h r IH]; intros w; cbn [fires_of]; auto.
      destruct (match h with HSelf => (me, length (nth me (handed w) []) - 1) | HOf c k => (c, k) end) as [c k].
      destruct (fire_handle_pass w c k) as [A B]. destruct (IH (fire_handle w c k)) as [A' B']. split; congruence.
    Qed.

    Lemma poll_child_P w i pid : aw w i = true -> i < N w -> PW w -> vres_P (poll_child w i pid) /\ vres_N (N w) (poll_child w i pid).
    Proof.
      intros Ha Hi HP. unfold poll_child, pop.
      set (m := member (cs w) i).
      destruct (match nth m (scripts w) [] with [] => ({| fires := []; answer := APend |}, scripts w) | x :: rest => (x, upd (scripts w) m rest) end) as [stp sc'] eqn:Epop.
      match goal with |- context[fires_of ?W _ _] => set (w1 := W) end.
      destruct (fires_of_pass w1 m (fires stp)) as [Hc Hs].
      set (w2 := fires_of w1 m (fires stp)) in *.
      assert (Hc2 : cs w2 = cs w) by (rewrite Hc; reflexivity).
      assert (Hs2 : scripts w2 = sc') by (rewrite Hs; reflexivity).
      pose proof (P_handle (cs w) (scripts w) i stp sc' Ha Hi (eq_sym Epop) HP) as HP'.
      pose proof (handle_slots (cs w) i (answer stp)) as Hsl.
      rewrite Hc2. destruct (handle (cs w) i (answer stp)) as [[s' a] eh] eqn:Eh. cbn [fst] in *.
      destruct a as [|r o|]; cbn [vres_P vres_N].
      - split; [unfold PW; cbn; rewrite Hs2; exact HP' | unfold N; cbn; exact Hsl].
      - unfold apply_rearm. split.
        + unfold PW. destruct (sel (set_cs (emit w2 (EAns (answer stp) :: eh)) s')); [destruct r|]; cbn; rewrite Hs2; exact HP'.
        + unfold N. destruct (sel (set_cs (emit w2 (EAns (answer stp) :: eh)) s')); [destruct r|]; cbn; exact Hsl.
      - apply handle_abort in Eh. subst s'. split; [unfold PW; cbn; rewrite Hc2, Hs2; exact HP' | unfold N; cbn; rewrite Hc2; reflexivity].
    Qed.

    Lemma visit_P w i pid : i < N w -> PW w -> vres_P (visit w i pid) /\ vres_N (N w) (visit w i pid).
    Proof.
      intros Hi HP. unfold visit. destruct (any_per_iter && negb (any_ready w)); [split; [exact HP|reflexivity]|].
      assert (Hcl : forall w1 was, clear_bit w i = (w1, was) -> cs w1 = cs w /\ scripts w1 = scripts w).
      { unfold clear_bit. intros w1 was E. destruct (sel w); [destruct (nth i (bits w) false)|]; inversion E; subst; auto. }
      destruct (clear_bit w i) as [w1 was] eqn:Ec. destruct (Hcl w1 was eq_refl) as [Hc Hs].
      assert (HP1 : PW w1) by (unfold PW; rewrite Hc, Hs; exact HP).
      assert (HN1 : N w1 = N w) by (unfold N; rewrite Hc; reflexivity).
      destruct clear_first.
      - destruct was; [|split; [exact HP|reflexivity]].
        destruct (awaited (cs w) i) eqn:Ea; [|split; [exact HP1|exact HN1]].
        rewrite <- HN1. apply poll_child_P; auto; unfold aw, N; rewrite ?Hc; auto.
      - destruct (awaited (cs w) i) eqn:Ea; [|split; [exact HP|reflexivity]].
        destruct was; [|split; [exact HP|reflexivity]].
        rewrite <- HN1. apply poll_child_P; auto; unfold aw, N; rewrite ?Hc; auto.
    Qed.

    Lemma scan_P w is pid : (forall i, In i is -> i < N w) -> PW w -> vres_P (scan w is pid).
    Proof.
      revert w. induction is as [|i rest IH]; intros w Hin HP; cbn [scan]; [exact HP|].
      destruct (visit_P w i pid (Hin i (or_introl eq_refl)) HP) as [Hv Hn].
      destruct (visit w i pid) as [w'|w'|w' o|w']; cbn in Hv, Hn; auto.
      apply IH; auto. intros j Hj. rewrite Hn. apply Hin. right; auto.
    Qed.

    (* what a poll does to (state, scripts): the predicate survives, and a `Ready` produced by `finish`
       comes from a state that satisfied it *)
    Lemma poll_P w pid np : PW w -> PW (poll w pid np).
    Proof.
      intros HP. unfold poll.
      assert (Hmf : forall w' o, PW w' -> PW (mark_final w' o)) by (intros w' o H; unfold mark_final; destruct (final o); exact H).
      destruct (pre_exit (cs w)); [apply Hmf; exact HP|].
      set (w0 := begin_poll w pid np).
      assert (HP0 : PW w0) by exact HP.
      destruct (pre_any (cs w0) && negb (any_ready w0)); [exact HP0|].
      destruct (order (cs w0)) as [[is s1]|] eqn:Eo; [|exact HP0].
      assert (HP1 : PW (set_cs w0 s1)) by (unfold PW; cbn; eapply P_order; eauto).
      assert (Hin : forall i, In i is -> i < N (set_cs w0 s1)).
      { intros i Hi. unfold N; cbn. rewrite (order_slots (cs w0) is s1 Eo). apply (order_bound (cs w0) is s1 (P_Q _ _ HP0) Eo i Hi). }
      pose proof (scan_P (set_cs w0 s1) is pid Hin HP1) as Hs.
      destruct (scan (set_cs w0 s1) is pid) as [w1|w1|w1 o|w1]; cbn in Hs.
      - pose proof (P_finish (cs w1) (scripts w1) Hs) as X. destruct (finish (cs w1)) as [s2 [x|]]; cbn in X; [apply Hmf|]; exact X.
      - exact Hs.
      - apply Hmf. unfold PW; cbn. apply P_after. exact Hs.
      - exact Hs.
    Qed.

    (* ---- every result the combinator ever returns is Good, provided the three places that produce results are ---- *)
    Variable Good : out -> Prop.
    Hypothesis good_pre : forall s sc o, P s sc -> pre_exit s = Some o -> Good o.
    Hypothesis good_finish : forall s sc s' o, P s sc -> finish s = (s', Some o) -> Good o.
    Hypothesis good_stop : forall s sc i stp sc' s' r o e, awaited s i = true -> i < slots s ->
        (stp, sc') = (match nth (member s i) sc [] with [] => ({| fires := []; answer := APend |}, sc) | x :: rest => (x, upd sc (member s i) rest) end) ->
        P s sc -> handle s i (answer stp) = (s', Stop r o, e) -> Good o.
    Hypothesis handle_noend : forall s i a o, ~ In (EEndR o) (snd (handle s i a)).
    Hypothesis drop_noend : forall s o, ~ In (EEndR o) (drop_all s).

    Definition GoodTr (w: world) := forall o, In (EEndR o) (tr w) -> Good o.
    Lemma GoodTr_emit w es : GoodTr w -> (forall o, In (EEndR o) es -> Good o) -> GoodTr (emit w es).
    Proof. intros H1 H2 o Ho. unfold emit in Ho; cbn in Ho. apply in_app_or in Ho as [Ho|Ho]; auto. Qed.
    Lemma do_fire_tr w j : GoodTr w -> GoodTr (do_fire w j).
    Proof.
      intros H. unfold do_fire. destruct (j <? N w); auto. destruct (nth j (bits w) true); [exact H|].
      intros o Ho. cbn in Ho. apply in_app_or in Ho as [Ho|Ho]; auto. destruct (parent w); [destruct Ho as [Ho|[]]; discriminate | destruct Ho].
    Qed.
    Lemma fire_handle_tr w c k : GoodTr w -> GoodTr (fire_handle w c k).
    Proof.
      intros H. unfold fire_handle. destruct (nth_error (nth c (handed w) []) k) as [[slot|pid]|]; auto.
      - apply do_fire_tr, GoodTr_emit; auto. intros o [Ho|[]]; discriminate.
      - apply GoodTr_emit; auto. intros o [Ho|[Ho|[]]]; discriminate.
    Qed.
    Lemma fires_of_tr w me hs : GoodTr w -> GoodTr (fires_of w me hs).
    Proof.
      revert w. induction hs as [|h r IH]; intros w H; cbn [fires_of]; auto.
      destruct (match h with HSelf => (me, length (nth me (handed w) []) - 1) | HOf c k => (c, k) end) as [c k].
      apply IH, fire_handle_tr, H.
    Qed.
    Definition vres_G (r: vres) : Prop :=
      match r with VCont w | VPending w | VAbort w => GoodTr w | VReady w o => GoodTr w /\ Good o end.

    Lemma poll_child_G w i pid : aw w i = true -> i < N w -> PW w -> GoodTr w -> vres_G (poll_child w i pid).
    Proof.
      intros Ha Hi HP HG. unfold poll_child, pop.
      set (m := member (cs w) i).
      destruct (match nth m (scripts w) [] with [] => ({| fires := []; answer := APend |}, scripts w) | x :: rest => (x, upd (scripts w) m rest) end) as [stp sc'] eqn:Epop.
      match goal with |- context[fires_of ?W _ _] => set (w1 := W) end.
      assert (HG1 : GoodTr w1).
      { unfold w1. apply GoodTr_emit; [exact HG|]. intros o [Ho|[]]; discriminate. }
      pose proof (fires_of_tr w1 m (fires stp) HG1) as HG2.
      destruct (fires_of_pass w1 m (fires stp)) as [Hc Hs].
      set (w2 := fires_of w1 m (fires stp)) in *.
      assert (Hc2 : cs w2 = cs w) by (rewrite Hc; reflexivity).
      rewrite Hc2.
      pose proof (handle_noend (cs w) i (answer stp)) as Hne.
      pose proof (good_stop (cs w) (scripts w) i stp sc') as Hgs.
      destruct (handle (cs w) i (answer stp)) as [[s' a] eh] eqn:Eh. cbn [snd] in Hne.
      assert (HG3 : GoodTr (emit w2 (EAns (answer stp) :: eh))).
      { apply GoodTr_emit; auto. intros o [Ho|Ho]; [discriminate|]. exfalso. eapply Hne; eauto. }
      destruct a as [|r o|]; cbn [vres_G]; auto.
      split.
      - unfold apply_rearm. destruct (sel (set_cs (emit w2 (EAns (answer stp) :: eh)) s')); [destruct r|]; exact HG3.
      - eapply Hgs; eauto.
    Qed.

    Lemma visit_G w i pid : i < N w -> PW w -> GoodTr w -> vres_G (visit w i pid).
    Proof.
      intros Hi HP HG. unfold visit. destruct (any_per_iter && negb (any_ready w)); [exact HG|].
      assert (Hcl : forall w1 was, clear_bit w i = (w1, was) -> cs w1 = cs w /\ scripts w1 = scripts w /\ tr w1 = tr w).
      { unfold clear_bit. intros w1 was E. destruct (sel w); [destruct (nth i (bits w) false)|]; inversion E; subst; auto. }
      destruct (clear_bit w i) as [w1 was] eqn:Ec. destruct (Hcl w1 was eq_refl) as (Hc & Hs & Ht).
      assert (HP1 : PW w1) by (unfold PW; rewrite Hc, Hs; exact HP).
      assert (HG1 : GoodTr w1) by (unfold GoodTr; rewrite Ht; exact HG).
      assert (HN1 : N w1 = N w) by (unfold N; rewrite Hc; reflexivity).
      destruct clear_first.
      - destruct was; [|exact HG]. destruct (awaited (cs w) i) eqn:Ea; [|exact HG1].
        apply poll_child_G; auto; unfold aw, N; rewrite ?Hc; auto.
      - destruct (awaited (cs w) i) eqn:Ea; [|exact HG]. destruct was; [|exact HG].
        apply poll_child_G; auto; unfold aw, N; rewrite ?Hc; auto.
    Qed.

    Lemma scan_G w is pid : (forall i, In i is -> i < N w) -> PW w -> GoodTr w -> vres_G (scan w is pid).
    Proof.
      revert w. induction is as [|i rest IH]; intros w Hin HP HG; cbn [scan]; [exact HG|].
      destruct (visit_P w i pid (Hin i (or_introl eq_refl)) HP) as [Hv Hn].
      pose proof (visit_G w i pid (Hin i (or_introl eq_refl)) HP HG) as Hg.
      destruct (visit w i pid) as [w'|w'|w' o|w']; cbn in Hv, Hn, Hg; auto.
      apply IH; auto. intros j Hj. rewrite Hn. apply Hin. right; auto.
    Qed.

    Lemma GoodTr_flags w f d g : GoodTr w -> GoodTr (set_flags w f d g). Proof. auto. Qed.
    Lemma GoodTr_ret w b : GoodTr w -> GoodTr (set_ret w b). Proof. auto. Qed.
    Lemma GoodTr_mark w o : GoodTr w -> GoodTr (mark_final w o). Proof. intros H. unfold mark_final. destruct (final o); auto. Qed.
    Lemma GoodTr_unwind w : GoodTr w -> GoodTr (unwind w).
    Proof.
      intros H. unfold unwind. apply GoodTr_flags, GoodTr_ret, GoodTr_emit; auto.
      intros o [Ho|Ho]; [discriminate|]. apply in_app_or in Ho as [Ho|[Ho|[]]]; [|discriminate]. exfalso. eapply drop_noend; eauto.
    Qed.

    Lemma poll_G w pid np : PW w -> GoodTr w -> GoodTr (poll w pid np).
    Proof.
      intros HP HG. unfold poll.
      destruct (pre_exit (cs w)) as [o|] eqn:Epre.
      { apply GoodTr_mark, GoodTr_ret, GoodTr_emit; [exact HG|]. intros o' [Ho|[Ho|[]]]; [discriminate|]. inversion Ho; subst. eapply good_pre; eauto. }
      set (w0 := begin_poll w pid np).
      assert (HP0 : PW w0) by exact HP.
      assert (HG0 : GoodTr w0).
      { intros o Ho. unfold w0 in Ho; cbn in Ho. apply in_app_or in Ho as [Ho|[Ho|[]]]; [auto|discriminate]. }
      destruct (pre_any (cs w0) && negb (any_ready w0)).
      { apply GoodTr_ret, GoodTr_emit; auto. intros o [Ho|[]]; discriminate. }
      destruct (order (cs w0)) as [[is s1]|] eqn:Eo; [|apply GoodTr_unwind; exact HG0].
      assert (HP1 : PW (set_cs w0 s1)) by (unfold PW; cbn; eapply P_order; eauto).
      assert (Hin : forall i, In i is -> i < N (set_cs w0 s1)).
      { intros i Hi. unfold N; cbn. rewrite (order_slots (cs w0) is s1 Eo). apply (order_bound (cs w0) is s1 (P_Q _ _ HP0) Eo i Hi). }
      pose proof (scan_P (set_cs w0 s1) is pid Hin HP1) as Hs.
      pose proof (scan_G (set_cs w0 s1) is pid Hin HP1 HG0) as Hg.
      destruct (scan (set_cs w0 s1) is pid) as [w1|w1|w1 o|w1]; cbn in Hs, Hg.
      - destruct (finish (cs w1)) as [s2 [x|]] eqn:Ef.
        + apply GoodTr_mark, GoodTr_ret, GoodTr_emit; [exact Hg|]. intros o' [Ho|[]]. inversion Ho; subst. eapply good_finish; eauto.
        + apply GoodTr_ret, GoodTr_emit; [exact Hg|]. intros o' [Ho|[]]; discriminate.
      - apply GoodTr_ret, GoodTr_emit; [exact Hg|]. intros o' [Ho|[]]; discriminate.
      - destruct Hg as [Hg Ho]. apply GoodTr_mark, GoodTr_ret, GoodTr_emit; [exact Hg|]. intros o' [E|[]]. inversion E; subst. exact Ho.
      - apply GoodTr_unwind. exact Hg.
    Qed.
  End InstInv.

  (* ------------- mutations between polls (groups) ------------- *)
  Definition w_grow (w: world) (s': St) (m: nat) : world :=
    {| cs := s'; sel := sel w; bits := bits w ++ repeat true m; parent := parent w; scripts := scripts w; handed := handed w;
       nparents := nparents w; finished := finished w; dropped := dropped w; gone := gone w; g_out := g_out w;
       g_fired := g_fired w ++ repeat false m; g_polled := g_polled w ++ repeat false m; g_lastpend := g_lastpend w ++ repeat false m;
       g_bad16 := g_bad16 w; g_retpend := g_retpend w; g_quiet := g_quiet w; tr := tr w |}.
  Definition w_occupy (w: world) (s': St) (k: nat) (sc: list step) : world :=
    {| cs := s'; sel := sel w; bits := upd (bits w) k true; parent := parent w; scripts := scripts w ++ [sc]; handed := handed w ++ [[]];
       nparents := nparents w; finished := finished w; dropped := dropped w; gone := gone w; g_out := g_out w;
       g_fired := upd (g_fired w) k false; g_polled := upd (g_polled w) k false; g_lastpend := upd (g_lastpend w) k false;
       g_bad16 := g_bad16 w; g_retpend := g_retpend w; g_quiet := false; tr := tr w |}.
  Definition w_vacate (w: world) (s': St) (k: nat) : world :=
    {| cs := s'; sel := sel w; bits := bits w; parent := parent w; scripts := scripts w; handed := handed w;
       nparents := nparents w; finished := finished w; dropped := dropped w; gone := gone w; g_out := g_out w;
       g_fired := g_fired w; g_polled := g_polled w; g_lastpend := upd (g_lastpend w) k false;
       g_bad16 := g_bad16 w; g_retpend := g_retpend w; g_quiet := g_quiet w; tr := tr w |}.

  Lemma nth_repeat_gen (b d: bool) m j : nth j (repeat b m) d = if j <? m then b else d.
  Proof.
    revert j. induction m as [|m IH]; intros [|j]; cbn [repeat nth]; auto.
    rewrite IH. change (S j <? S m) with (j <? m). reflexivity.
  Qed.
  Lemma nth_app_repeat (l: list bool) b m k d :
    nth k (l ++ repeat b m) d = if k <? length l then nth k l d else if k - length l <? m then b else d.
  Proof.
    destruct (k <? length l) eqn:E; [apply Nat.ltb_lt in E; apply app_nth1; auto|].
    apply Nat.ltb_ge in E. rewrite app_nth2 by auto. apply nth_repeat_gen.
  Qed.

  Lemma Inv_grow w s' m : Inv w -> Q s' -> slots s' = N w + m ->
    (forall i, i < N w -> awaited s' i = aw w i) -> (forall i, N w <= i -> awaited s' i = false) ->
    Inv (w_grow w s' m).
  Proof.
    intros (HK & HR & HA) HQs Hs Hold Hnew. dK HK.
    assert (Hlt : forall (l: list bool) b d i, length l = N w -> i < N w -> nth i (l ++ repeat b m) d = nth i l d).
    { intros l b d i Hl Hi. rewrite nth_app_repeat. rewrite Hl. destruct (i <? N w) eqn:E; auto. apply Nat.ltb_ge in E. lia. }
    assert (Haw : forall i, i < N w + m -> awaited s' i = true -> i < N w /\ aw w i = true).
    { intros i Hi Ha. destruct (Nat.lt_ge_cases i (N w)) as [Hlt'|Hge]; [split; auto; rewrite <- Hold; auto|].
      rewrite Hnew in Ha by auto. discriminate. }
    split; [|split].
    - unf. cbn. rewrite Hs.
      split; [constructor; unfold N; cbn; rewrite ?app_length, ?repeat_length; auto; lia|].
      split; [auto|]. split; [|split; [|split; [|split]]]; auto.
      + intros i Hi Ha Hf. destruct (Haw i Hi Ha) as [Hi' Ha']. rewrite Hlt in * by auto. auto.
      + intros i Hi Ha Hp. destruct (Haw i Hi Ha) as [Hi' Ha']. rewrite Hlt in * by auto. auto.
      + intros i Hi Ha Hp Hl Hbi. destruct (Haw i Hi Ha) as [Hi' Ha']. rewrite Hlt in * by auto. auto.
      + intros i Hi Ha. destruct (Nat.lt_ge_cases i (slots (cs w))) as [Hlt'|Hge].
        * rewrite Hlt by auto. apply H5; auto. rewrite <- Hold; auto.
        * rewrite nth_app_repeat. rewrite Wl. destruct (i <? slots (cs w)) eqn:E; [apply Nat.ltb_lt in E; lia|].
          destruct (i - slots (cs w) <? m); auto.
    - cbn. intros Hr. specialize (HR Hr). unfold Bnd, aw, bit, polled, N in *. cbn. rewrite Hs.
      intros i Hi Ha Hbi Hp. destruct (Haw i Hi Ha) as [Hi' Ha']. rewrite Hlt in * by auto. eauto.
    - cbn. intros Hr Hq. specialize (HA Hr Hq). unfold AllPolled, aw, polled, N in *. cbn. rewrite Hs.
      intros i Hi Ha. destruct (Haw i Hi Ha) as [Hi' Ha']. rewrite Hlt by auto. eauto.
  Qed.

  Lemma Inv_occupy w s' k sc : Inv w -> Q s' -> slots s' = N w -> k < N w ->
    (forall i, i <> k -> awaited s' i = aw w i) ->
    Inv (w_occupy w s' k sc).
  Proof.
    intros (HK & HR & HA) HQs Hs Hk Hoth. dK HK.
    split; [|split].
    - unf. cbn. rewrite Hs.
      split; [constructor; unfold N; cbn; rewrite ?upd_length; auto; lia|].
      split; [auto|]. split; [|split; [|split; [|split]]]; auto.
      + intros i Hi Ha Hf. destruct (Nat.eq_dec k i) as [->|Hne]; nthupd; auto. apply H2; auto. rewrite <- Hoth; auto.
      + intros i Hi Ha Hp. destruct (Nat.eq_dec k i) as [->|Hne]; nthupd; auto. apply H3; auto. rewrite <- Hoth; auto.
      + intros i Hi Ha Hp Hl Hbi. destruct (Nat.eq_dec k i) as [->|Hne]; nthupd; [discriminate|]. apply H4; auto. rewrite <- Hoth; auto.
      + intros i Hi Ha. destruct (Nat.eq_dec k i) as [->|Hne]; nthupd; auto. apply H5; auto. rewrite <- Hoth; auto.
    - cbn. intros Hr. specialize (HR Hr). unfold Bnd, aw, bit, polled, N in *. cbn. rewrite Hs.
      intros i Hi Ha Hbi Hp. destruct (Nat.eq_dec k i) as [->|Hne]; nthupd; [discriminate|]. apply (HR i); auto. rewrite <- Hoth; auto.
    - cbn. intros _ Hq. discriminate.
  Qed.

  Lemma Inv_vacate w s' k : Inv w -> Q s' -> slots s' = N w -> k < N w -> awaited s' k = false ->
    (forall i, i <> k -> awaited s' i = aw w i) ->
    Inv (w_vacate w s' k).
  Proof.
    intros (HK & HR & HA) HQs Hs Hk Hk' Hoth. dK HK.
    assert (Hsub : forall i, awaited s' i = true -> i <> k /\ aw w i = true).
    { intros i Ha. destruct (Nat.eq_dec i k) as [->|Hne]; [congruence|]. split; auto. rewrite <- Hoth; auto. }
    split; [|split].
    - unf. cbn. rewrite Hs.
      split; [constructor; unfold N; cbn; rewrite ?upd_length; auto; lia|].
      split; [auto|]. split; [|split; [|split; [|split]]]; auto.
      + intros i Hi Ha. destruct (Hsub i Ha). auto.
      + intros i Hi Ha. destruct (Hsub i Ha). auto.
      + intros i Hi Ha Hp Hl. destruct (Hsub i Ha) as [Hne Ha']. rewrite nth_upd_other in Hl by auto. auto.
      + intros i Hi Ha. destruct (Nat.eq_dec k i) as [->|Hne]; nthupd; auto. apply H5; auto. rewrite <- Hoth; auto.
    - cbn. intros Hr. specialize (HR Hr). unfold Bnd, aw, bit, polled, N in *. cbn. rewrite Hs.
      intros i Hi Ha Hbi Hp. destruct (Hsub i Ha). eapply HR; eauto.
    - cbn. intros Hr Hq. specialize (HA Hr Hq). unfold AllPolled, aw, polled, N in *. cbn. rewrite Hs.
      intros i Hi Ha. destruct (Hsub i Ha). eapply HA; eauto.
  Qed.

  (* ------------- operations and histories ------------- *)
  Inductive op := OPollFresh | OPollSame | OFire (c k: nat) | ODrop | OMut (m arg: nat) (sc: list step).
  Variable mutate : world -> nat -> nat -> list step -> world.
  Hypothesis mutate_inv : forall w m a sc, Inv w -> Inv (mutate w m a sc).

  Definition step_op (w: world) (o: op) : world :=
    match o with
    | OPollFresh | OPollSame =>
        if finished w || dropped w then w else
        let fresh := match o with OPollFresh => true | _ => (nparents w =? 0) end in
        let np := if fresh then S (nparents w) else nparents w in
        poll w (np - 1) np
    | OFire c k => fire_handle (emit w [EO]) c k
    | ODrop => if dropped w then set_flags (emit w [ED]) (finished w) true true
               else set_flags (emit w (ED :: drop_all (cs w))) (finished w) true true
    | OMut m a sc => if dropped w then w else mutate w m a sc
    end.
  Definition run_ops (w: world) (ops: list op) : world := fold_left step_op ops w.
  (* the harness always drops the combinator at the end *)
  Definition close_trace (w': world) : list ev :=
    if gone w' then tr w' else if dropped w' then tr w' ++ [ED] else tr w' ++ ED :: drop_all (cs w').
  Definition run_trace (w: world) (ops: list op) : list ev := close_trace (run_ops w ops).

  Lemma Inv_step w o : Inv w -> Inv (step_op w o).
  Proof.
    intros HI. destruct o; cbn [step_op].
    - destruct (finished w || dropped w); auto. apply Inv_poll, HI.
    - destruct (finished w || dropped w); auto. apply Inv_poll, HI.
    - apply Inv_fire_handle, Inv_emit, HI.
    - destruct (dropped w); apply Inv_flags, Inv_emit, HI.
    - destruct (dropped w); auto.
  Qed.
  Lemma Inv_run ops : forall w, Inv w -> Inv (run_ops w ops).
  Proof. induction ops as [|o r IH]; intros w HI; cbn; auto. apply IH, Inv_step, HI. Qed.

  (* ------------- relational invariants between (state, remaining scripts) and the sequence of results returned so far ------------- *)
  Fixpoint results (t: list ev) : list out :=
    match t with [] => [] | EEndR o :: r => o :: results r | _ :: r => results r end.
  Lemma results_app a b : results (a ++ b) = results a ++ results b.
  Proof. induction a as [|e a IH]; cbn; auto. destruct e; cbn; rewrite ?IH; auto. Qed.
  Definition no_results (es: list ev) := results es = [].

  Section RelInv.
    Variable R : St -> list (list step) -> list out -> Prop.
    Definition popped_of (s: St) (sc: list (list step)) (i: nat) :=
      match nth (member s i) sc [] with [] => ({| fires := []; answer := APend |}, sc) | x :: rest => (x, upd sc (member s i) rest) end.
    Hypothesis R_cont : forall s sc rs i stp sc' s' e, awaited s i = true -> i < slots s -> (stp, sc') = popped_of s sc i ->
        R s sc rs -> handle s i (answer stp) = (s', Cont, e) -> R s' sc' rs.
    Hypothesis R_stop : forall s sc rs i stp sc' s' r o e, awaited s i = true -> i < slots s -> (stp, sc') = popped_of s sc i ->
        R s sc rs -> handle s i (answer stp) = (s', Stop r o, e) -> R (after_stop s') sc' (rs ++ [o]).
    Hypothesis R_abort : forall s sc rs i stp sc' s' e, awaited s i = true -> i < slots s -> (stp, sc') = popped_of s sc i ->
        R s sc rs -> handle s i (answer stp) = (s', Abort, e) -> R s sc' rs.
    Hypothesis R_order : forall s is s1 sc rs, order s = Some (is, s1) -> R s sc rs -> R s1 sc rs.
    Hypothesis R_finish : forall s sc rs, R s sc rs ->
        match snd (finish s) with Some o => R (fst (finish s)) sc (rs ++ [o]) | None => R (fst (finish s)) sc rs end.
    Hypothesis R_pre : forall s sc rs o, R s sc rs -> pre_exit s = Some o -> R s sc (rs ++ [o]).
    Hypothesis R_Q : forall s sc rs, R s sc rs -> Q s.
    Hypothesis handle_nores : forall s i a, no_results (snd (handle s i a)).
    Hypothesis drop_nores : forall s, no_results (drop_all s).
    Hypothesis R_mut : forall w m a sc, R (cs w) (scripts w) (results (tr w)) -> R (cs (mutate w m a sc)) (scripts (mutate w m a sc)) (results (tr (mutate w m a sc))).

    Definition RW (w: world) := R (cs w) (scripts w) (results (tr w)).
    Lemma results_emit w es : results (tr (emit w es)) = results (tr w) ++ results es.
    Proof. cbn. apply results_app. Qed.
    Lemma do_fire_res w j : results (tr (do_fire w j)) = results (tr w).
    Proof.
      unfold do_fire. destruct (j <? N w); auto. destruct (nth j (bits w) true); auto.
      cbn. rewrite results_app. destruct (parent w); cbn; rewrite app_nil_r; auto.
    Qed.
    Lemma fire_handle_res w c k : results (tr (fire_handle w c k)) = results (tr w).
    Proof.
      unfold fire_handle. destruct (nth_error (nth c (handed w) []) k) as [[slot|pid]|]; auto.
      - rewrite do_fire_res, results_emit. cbn. apply app_nil_r.
      - rewrite results_emit. cbn. apply app_nil_r.
    Qed.
    Lemma fires_of_res w me hs : results (tr (fires_of w me hs)) = results (tr w).
    Proof.
      revert w. induction hs as [|h r IH]; intros w; cbn [fires_of]; auto.
      destruct (match h with HSelf => (me, length (nth me (handed w) []) - 1) | HOf c k => (c, k) end) as [c k].
      rewrite IH. apply fire_handle_res.
    Qed.
    Lemma fire_handle_RW w c k : RW w -> RW (fire_handle w c k).
    Proof.
      intros H. unfold RW. rewrite fire_handle_res.
      assert (X : cs (fire_handle w c k) = cs w /\ scripts (fire_handle w c k) = scripts w).
      { unfold fire_handle. destruct (nth_error (nth c (handed w) []) k) as [[slot|pid]|]; auto.
        unfold do_fire. destruct (slot <? N (emit w [EF c k])); auto. destruct (nth slot (bits (emit w [EF c k])) true); auto. }
      destruct X as [-> ->]. exact H.
    Qed.

    (* the result of visiting: for VReady the result has NOT yet been appended to the trace (poll does that) *)
    Definition vres_R (r: vres) : Prop :=
      match r with
      | VCont w | VPending w | VAbort w => RW w
      | VReady w o => R (after_stop (cs w)) (scripts w) (results (tr w) ++ [o])
      end.

    Lemma poll_child_R w i pid : aw w i = true -> i < N w -> RW w -> vres_R (poll_child w i pid).
    Proof.
      intros Ha Hi HR. unfold poll_child, pop.
      set (m := member (cs w) i).
      destruct (match nth m (scripts w) [] with [] => ({| fires := []; answer := APend |}, scripts w) | x :: rest => (x, upd (scripts w) m rest) end) as [stp sc'] eqn:Epop.
      match goal with |- context[fires_of ?W _ _] => set (w1 := W) end.
      assert (Hr1 : results (tr w1) = results (tr w)).
      { unfold w1. rewrite results_emit. cbn. apply app_nil_r. }
      pose proof (fires_of_res w1 m (fires stp)) as Hr2.
      assert (Hcs : cs (fires_of w1 m (fires stp)) = cs w /\ scripts (fires_of w1 m (fires stp)) = sc').
      { assert (G : forall hs w0, cs (fires_of w0 m hs) = cs w0 /\ scripts (fires_of w0 m hs) = scripts w0).
        { induction hs as [|h r IH]; intros w0; cbn [fires_of]; auto.
          destruct (match h with HSelf => (m, length (nth m (handed w0) []) - 1) | HOf c k => (c, k) end) as [c k].
          destruct (IH (fire_handle w0 c k)) as [A B]. rewrite A, B.
          unfold fire_handle. destruct (nth_error (nth c (handed w0) []) k) as [[slot|pid']|]; auto.
          unfold do_fire. destruct (slot <? N (emit w0 [EF c k])); auto. destruct (nth slot (bits (emit w0 [EF c k])) true); auto. }
        destruct (G (fires stp) w1) as [A B]. split; [rewrite A; reflexivity | rewrite B; reflexivity]. }
      destruct Hcs as [Hc Hs].
      set (w2 := fires_of w1 m (fires stp)) in *.
      rewrite Hc.
      pose proof (handle_nores (cs w) i (answer stp)) as Hne.
      pose proof (R_cont (cs w) (scripts w) (results (tr w)) i stp sc') as Hcont.
      pose proof (R_stop (cs w) (scripts w) (results (tr w)) i stp sc') as Hstop.
      pose proof (R_abort (cs w) (scripts w) (results (tr w)) i stp sc') as Habort.
      destruct (handle (cs w) i (answer stp)) as [[s' a] eh] eqn:Eh. cbn [snd] in Hne.
      assert (Hr3 : results (tr (emit w2 (EAns (answer stp) :: eh))) = results (tr w)).
      { rewrite results_emit. cbn [results]. rewrite Hne, app_nil_r. congruence. }
      destruct a as [|r o|]; cbn [vres_R].
      - unfold RW. cbn [cs scripts tr set_cs]. change (tr (emit w2 (EAns (answer stp) :: eh))) with (tr (emit w2 (EAns (answer stp) :: eh))).
        rewrite Hr3. cbn. rewrite Hs. eapply Hcont; eauto.
      - unfold apply_rearm.
        assert (X : forall wx, cs wx = s' -> scripts wx = sc' -> results (tr wx) = results (tr w) ->
                    R (after_stop (cs wx)) (scripts wx) (results (tr wx) ++ [o])).
        { intros wx -> -> ->. eapply Hstop; eauto. }
        destruct (sel (set_cs (emit w2 (EAns (answer stp) :: eh)) s')); [destruct r|]; apply X; cbn; auto.
      - unfold RW. rewrite Hr3. cbn. rewrite Hs, Hc. eapply Habort; eauto.
    Qed.


    Definition PQ (s: St) (_: list (list step)) := Q s.
    Lemma PQ_handle : forall s sc i stp sc', awaited s i = true -> i < slots s ->
        (stp, sc') = (match nth (member s i) sc [] with [] => ({| fires := []; answer := APend |}, sc) | x :: rest => (x, upd sc (member s i) rest) end) ->
        PQ s sc -> PQ (fst (fst (handle s i (answer stp)))) sc'.
    Proof. intros. apply Q_handle; auto. Qed.
    Lemma visit_N w i pid : i < N w -> Q (cs w) -> vres_N (N w) (visit w i pid).
    Proof. intros Hi HQ. apply (visit_P PQ PQ_handle w i pid Hi HQ). Qed.

    Lemma visit_R w i pid : i < N w -> RW w -> vres_R (visit w i pid).
    Proof.
      intros Hi HR. unfold visit. destruct (any_per_iter && negb (any_ready w)); [exact HR|].
      assert (Hcl : forall w1 was, clear_bit w i = (w1, was) -> cs w1 = cs w /\ scripts w1 = scripts w /\ tr w1 = tr w).
      { unfold clear_bit. intros w1 was E. destruct (sel w); [destruct (nth i (bits w) false)|]; inversion E; subst; auto. }
      destruct (clear_bit w i) as [w1 was] eqn:Ec. destruct (Hcl w1 was eq_refl) as (Hc & Hs & Ht).
      assert (HR1 : RW w1) by (unfold RW; rewrite Hc, Hs, Ht; exact HR).
      destruct clear_first.
      - destruct was; [|exact HR]. destruct (awaited (cs w) i) eqn:Ea; [|exact HR1].
        apply poll_child_R; auto; unfold aw, N; rewrite ?Hc; auto.
      - destruct (awaited (cs w) i) eqn:Ea; [|exact HR]. destruct was; [|exact HR].
        apply poll_child_R; auto; unfold aw, N; rewrite ?Hc; auto.
    Qed.

    Lemma scan_R w is pid : (forall i, In i is -> i < N w) -> RW w -> vres_R (scan w is pid).
    Proof.
      revert w. induction is as [|i rest IH]; intros w Hin HR; cbn [scan]; [exact HR|].
      pose proof (visit_N w i pid (Hin i (or_introl eq_refl)) (R_Q _ _ _ HR)) as Hn.
      pose proof (visit_R w i pid (Hin i (or_introl eq_refl)) HR) as Hg.
      destruct (visit w i pid) as [w'|w'|w' o|w']; cbn in Hn, Hg; auto.
      apply IH; auto. intros j Hj. rewrite Hn. apply Hin. right; auto.
    Qed.

    Lemma RW_unwind w : RW w -> RW (unwind w).
    Proof.
      intros H. unfold unwind, RW. cbn. rewrite results_app. cbn. rewrite results_app, drop_nores. cbn. rewrite app_nil_r. exact H.
    Qed.
    Lemma RW_mark w o : RW w -> RW (mark_final w o).
    Proof. intros H. unfold mark_final. destruct (final o); exact H. Qed.

    Lemma poll_R w pid np : RW w -> RW (poll w pid np).
    Proof.
      intros HR. unfold poll.
      destruct (pre_exit (cs w)) as [o|] eqn:Epre.
      { apply RW_mark. unfold RW. cbn. rewrite results_app. cbn. eapply R_pre; eauto. }
      set (w0 := begin_poll w pid np).
      assert (HR0 : RW w0).
      { unfold RW, w0. cbn. rewrite results_app. cbn. rewrite app_nil_r. exact HR. }
      destruct (pre_any (cs w0) && negb (any_ready w0)).
      { unfold RW. cbn. rewrite results_app. cbn. rewrite app_nil_r. exact HR0. }
      destruct (order (cs w0)) as [[is s1]|] eqn:Eo; [|apply RW_unwind; exact HR0].
      assert (HR1 : RW (set_cs w0 s1)) by (unfold RW; cbn; eapply R_order; eauto; exact HR0).
      assert (Hin : forall i, In i is -> i < N (set_cs w0 s1)).
      { intros i Hi. unfold N; cbn. rewrite (order_slots (cs w0) is s1 Eo). apply (order_bound (cs w0) is s1 (R_Q _ _ _ HR0) Eo i Hi). }
      pose proof (scan_R (set_cs w0 s1) is pid Hin HR1) as Hg.
      destruct (scan (set_cs w0 s1) is pid) as [w1|w1|w1 o|w1]; cbn [vres_R] in Hg.
      - pose proof (R_finish _ _ _ Hg) as Hf. destruct (finish (cs w1)) as [s2 [x|]] eqn:Ef; cbn [fst snd] in Hf.
        + apply RW_mark. unfold RW. cbn. rewrite results_app. cbn. exact Hf.
        + unfold RW. cbn. rewrite results_app. cbn. rewrite app_nil_r. exact Hf.
      - unfold RW. cbn. rewrite results_app. cbn. rewrite app_nil_r. exact Hg.
      - apply RW_mark. unfold RW. cbn. rewrite results_app. cbn. exact Hg.
      - apply RW_unwind. exact Hg.
    Qed.

    Lemma RW_step w o : RW w -> RW (step_op w o).
    Proof.
      intros HR. destruct o; cbn [step_op].
      - destruct (finished w || dropped w); auto. apply poll_R, HR.
      - destruct (finished w || dropped w); auto. apply poll_R, HR.
      - apply fire_handle_RW. unfold RW. cbn. rewrite results_app. cbn. rewrite app_nil_r. exact HR.
      - destruct (dropped w); unfold RW; cbn; rewrite results_app; cbn; rewrite ?drop_nores, app_nil_r; exact HR.
      - destruct (dropped w); auto. apply R_mut, HR.
    Qed.
    Theorem RW_run ops : forall w, RW w -> RW (run_ops w ops).
    Proof. induction ops as [|o r IH]; intros w HR; cbn; auto. apply IH, RW_step, HR. Qed.
  End RelInv.

  (* ------------- trace invariants: a relation between the combinator state and the observable history so far.
     Scripts do not appear: a child's answer is an arbitrary input.  Wake-up traffic (EB/EF/EW/EO) is filtered out. ------------- *)
  Definition noise (e: ev) : bool := match e with EB _ | EF _ _ | EW _ | EO => true | _ => false end.
  Definition strip (t: list ev) : list ev := filter (fun e => negb (noise e)) t.
  Lemma strip_app a b : strip (a ++ b) = strip a ++ strip b. Proof. apply filter_app. Qed.

  Section TrInv.
    Variable T U : St -> list ev -> Prop.     (* T: between operations; U: inside a scan *)
    Hypothesis U_cont : forall s t i a s' eh wkr, U s t -> awaited s i = true -> i < slots s ->
        handle s i a = (s', Cont, eh) -> U s' (t ++ EC (member s i) wkr :: EAns a :: strip eh).
    Hypothesis U_stop : forall s t i a s' r o eh wkr, U s t -> awaited s i = true -> i < slots s ->
        handle s i a = (s', Stop r o, eh) -> T (after_stop s') (t ++ EC (member s i) wkr :: EAns a :: strip eh ++ [EEndR o]).
    Hypothesis T_order : forall s is s1 t, pre_exit s = None -> order s = Some (is, s1) -> T s t -> U s1 t.   (* order is only reached past the pre-loop exit *)
    Hypothesis U_finish : forall s t, U s t ->
        match snd (finish s) with Some o => T (fst (finish s)) (t ++ [EEndR o]) | None => T (fst (finish s)) (t ++ [EEndP]) end.
    Hypothesis T_pre : forall s t o, T s t -> pre_exit s = Some o -> T s (t ++ [EEndR o]).
    Hypothesis T_endp : forall s t, pre_exit s = None -> pre_any s = true -> T s t -> T s (t ++ [EEndP]).
    Hypothesis U_endp : any_per_iter = true -> forall s t, U s t -> T s (t ++ [EEndP]).
    Hypothesis T_Q : forall s t, T s t -> Q s.
    Hypothesis U_Q : forall s t, U s t -> Q s.
    Hypothesis T_mut : forall w m a sc, dropped w = false -> T (cs w) (strip (tr w)) ->
        dropped (mutate w m a sc) = false -> T (cs (mutate w m a sc)) (strip (tr (mutate w m a sc))).

    Definition TW (w: world) := dropped w = false -> T (cs w) (strip (tr w)).
    Definition TL (w: world) := dropped w = false /\ T (cs w) (strip (tr w)).
    Definition UL (w: world) := dropped w = false /\ U (cs w) (strip (tr w)).

    Lemma do_fire_T w j : cs (do_fire w j) = cs w /\ dropped (do_fire w j) = dropped w /\ strip (tr (do_fire w j)) = strip (tr w).
    Proof.
      unfold do_fire. destruct (j <? N w); auto. destruct (nth j (bits w) true); auto.
      cbn. rewrite strip_app. destruct (parent w); cbn; rewrite app_nil_r; auto.
    Qed.
    Lemma fire_handle_T w c k : cs (fire_handle w c k) = cs w /\ dropped (fire_handle w c k) = dropped w /\ strip (tr (fire_handle w c k)) = strip (tr w).
    Proof.
      unfold fire_handle. destruct (nth_error (nth c (handed w) []) k) as [[slot|pid]|]; auto.
      - destruct (do_fire_T (emit w [EF c k]) slot) as (A & B & C). rewrite A, B, C. cbn. rewrite strip_app. cbn. rewrite app_nil_r. auto.
      - cbn. rewrite strip_app. cbn. rewrite app_nil_r. auto.
    Qed.
    Lemma fires_of_T w me hs : cs (fires_of w me hs) = cs w /\ dropped (fires_of w me hs) = dropped w /\ strip (tr (fires_of w me hs)) = strip (tr w).
    Proof.
      revert w. induction hs as [|h r IH]; intros w; cbn [fires_of]; auto.
      destruct (match h with HSelf => (me, length (nth me (handed w) []) - 1) | HOf c k => (c, k) end) as [c k].
      destruct (IH (fire_handle w c k)) as (A & B & C). destruct (fire_handle_T w c k) as (A' & B' & C'). rewrite A, B, C. auto.
    Qed.

    Definition vres_T (r: vres) : Prop :=
      match r with
      | VCont w => UL w
      | VPending w => any_per_iter = true /\ UL w
      | VReady w o => dropped w = false /\ T (after_stop (cs w)) (strip (tr w) ++ [EEndR o])
      | VAbort w => True
      end.

    Lemma poll_child_T w i pid : aw w i = true -> i < N w -> UL w -> vres_T (poll_child w i pid).
    Proof.
      intros Ha Hi [Hd HT]. unfold poll_child.
      destruct (pop w (member (cs w) i)) as [stp sc'].
      set (m := member (cs w) i). set (wkr := if sel w then WSub i else WPar pid).
      match goal with |- context[fires_of ?W _ _] => set (w1 := W) end.
      destruct (fires_of_T w1 m (fires stp)) as (Hc & Hdr & Ht).
      set (w2 := fires_of w1 m (fires stp)) in *.
      assert (Hc2 : cs w2 = cs w) by (rewrite Hc; reflexivity).
      assert (Hd2 : dropped w2 = false) by (rewrite Hdr; exact Hd).
      assert (Ht2 : strip (tr w2) = strip (tr w) ++ [EC m wkr]).
      { rewrite Ht. unfold w1. cbn. rewrite strip_app. reflexivity. }
      rewrite Hc2.
      pose proof (U_cont (cs w) (strip (tr w)) i (answer stp)) as Hcont.
      pose proof (U_stop (cs w) (strip (tr w)) i (answer stp)) as Hstop.
      destruct (handle (cs w) i (answer stp)) as [[s' a] eh] eqn:Eh.
      assert (Ht3 : strip (tr (emit w2 (EAns (answer stp) :: eh))) = strip (tr w) ++ EC m wkr :: EAns (answer stp) :: strip eh).
      { cbn [tr emit]. rewrite strip_app, Ht2, <- app_assoc. reflexivity. }
      destruct a as [|r o|]; cbn [vres_T]; auto.
      - split; [exact Hd2|]. cbn [cs tr set_cs]. change (tr (emit w2 (EAns (answer stp) :: eh))) with (tr (emit w2 (EAns (answer stp) :: eh))).
        rewrite Ht3. eapply Hcont; eauto.
      - assert (X : forall wx, dropped wx = false -> cs wx = s' -> strip (tr wx) = strip (tr w) ++ EC m wkr :: EAns (answer stp) :: strip eh ->
                    dropped wx = false /\ T (after_stop (cs wx)) (strip (tr wx) ++ [EEndR o])).
        { intros wx Hx -> ->. split; auto. rewrite <- app_assoc. cbn [app]. eapply Hstop; eauto. }
        unfold apply_rearm. destruct (sel (set_cs (emit w2 (EAns (answer stp) :: eh)) s')); [destruct r|]; apply X; auto.
    Qed.

    Lemma visit_T w i pid : i < N w -> UL w -> vres_T (visit w i pid).
    Proof.
      intros Hi HT. unfold visit. destruct (any_per_iter && negb (any_ready w)) eqn:Eany; [apply andb_true_iff in Eany as [Eany _]; split; [exact Eany|exact HT]|].
      assert (Hcl : forall w1 was, clear_bit w i = (w1, was) -> cs w1 = cs w /\ dropped w1 = dropped w /\ tr w1 = tr w).
      { unfold clear_bit. intros w1 was E. destruct (sel w); [destruct (nth i (bits w) false)|]; inversion E; subst; auto. }
      destruct (clear_bit w i) as [w1 was] eqn:Ec. destruct (Hcl w1 was eq_refl) as (Hc & Hd & Ht).
      assert (HT1 : UL w1) by (unfold UL; rewrite Hc, Hd, Ht; exact HT).
      destruct clear_first.
      - destruct was; [|exact HT]. destruct (awaited (cs w) i) eqn:Ea; [|exact HT1].
        apply poll_child_T; auto; unfold aw, N; rewrite ?Hc; auto.
      - destruct (awaited (cs w) i) eqn:Ea; [|exact HT]. destruct was; [|exact HT].
        apply poll_child_T; auto; unfold aw, N; rewrite ?Hc; auto.
    Qed.

    Lemma scan_T w is pid : (forall i, In i is -> i < N w) -> UL w -> vres_T (scan w is pid).
    Proof.
      revert w. induction is as [|i rest IH]; intros w Hin HT; cbn [scan]; [exact HT|].
      pose proof (visit_P (fun s _ => Q s) (fun s sc i stp sc' Ha Hi _ HQ => Q_handle s i (answer stp) HQ Ha Hi) w i pid (Hin i (or_introl eq_refl)) (U_Q _ _ (proj2 HT))) as [_ Hn].
      pose proof (visit_T w i pid (Hin i (or_introl eq_refl)) HT) as Hg.
      destruct (visit w i pid) as [w'|w'|w' o|w']; cbn in Hn, Hg; auto.
      apply IH; auto. intros j Hj. rewrite Hn. apply Hin. right; auto.
    Qed.

    Lemma poll_T w pid np : TL w -> TW (poll w pid np).
    Proof.
      intros [Hd HT]. unfold poll.
      assert (Hmf : forall w' o, TW w' -> TW (mark_final w' o)) by (intros w' o H; unfold mark_final; destruct (final o); exact H).
      assert (Hunw : forall w', TW (unwind w')) by (intros w' X; discriminate).
      destruct (pre_exit (cs w)) as [o|] eqn:Epre.
      { apply Hmf. intros _. cbn. rewrite strip_app. cbn. eapply T_pre; eauto. }
      set (w0 := begin_poll w pid np).
      assert (HT0 : TL w0).
      { split; [exact Hd|]. unfold w0. cbn. rewrite strip_app. cbn. rewrite app_nil_r. exact HT. }
      destruct (pre_any (cs w0) && negb (any_ready w0)) eqn:Epa.
      { apply andb_true_iff in Epa as [Epa _]. intros _. cbn. rewrite !strip_app. cbn. rewrite app_nil_r. apply T_endp; [exact Epre|exact Epa|exact HT]. }
      destruct (order (cs w0)) as [[is s1]|] eqn:Eo; [|apply Hunw].
      assert (HT1 : UL (set_cs w0 s1)) by (split; [exact Hd|]; cbn; eapply T_order; [exact Epre|exact Eo|apply HT0]).
      assert (Hin : forall i, In i is -> i < N (set_cs w0 s1)).
      { intros i Hi. unfold N; cbn. rewrite (order_slots (cs w0) is s1 Eo). apply (order_bound (cs w0) is s1 (T_Q _ _ (proj2 HT0)) Eo i Hi). }
      pose proof (scan_T (set_cs w0 s1) is pid Hin HT1) as Hg.
      destruct (scan (set_cs w0 s1) is pid) as [w1|w1|w1 o|w1]; cbn [vres_T] in Hg.
      - destruct Hg as [Hd1 Hg]. pose proof (U_finish _ _ Hg) as Hf. destruct (finish (cs w1)) as [s2 [x|]] eqn:Ef; cbn [fst snd] in Hf.
        + apply Hmf. intros _. cbn. rewrite strip_app. exact Hf.
        + intros _. cbn. rewrite strip_app. exact Hf.
      - destruct Hg as [Eany [Hd1 Hg]]. intros _. cbn. rewrite strip_app. cbn. apply U_endp; auto.
      - destruct Hg as [Hd1 Hg]. apply Hmf. intros _. cbn. rewrite strip_app. exact Hg.
      - apply Hunw.
    Qed.

    Lemma TW_step w o : TW w -> TW (step_op w o).
    Proof.
      intros HT. destruct o; cbn [step_op].
      - destruct (finished w || dropped w) eqn:E; auto. apply orb_false_iff in E as [_ E]. apply poll_T. split; auto.
      - destruct (finished w || dropped w) eqn:E; auto. apply orb_false_iff in E as [_ E]. apply poll_T. split; auto.
      - destruct (fire_handle_T (emit w [EO]) c k) as (A & B & C). intros Hd. rewrite B in Hd. rewrite A, C. cbn. rewrite strip_app. cbn.
        rewrite app_nil_r. apply HT. exact Hd.
      - destruct (dropped w); intros X; discriminate.
      - destruct (dropped w) eqn:E; auto. intros Hd. apply T_mut; auto.
    Qed.
    Theorem TW_run ops : forall w, TW w -> TW (run_ops w ops).
    Proof. induction ops as [|o r IH]; intros w HT; cbn; auto. apply IH, TW_step, HT. Qed.
  End TrInv.

  (* ------------- the same, extended to the end of the combinator's life: F speaks about the complete observable history of a
     combinator that has been dropped or has unwound (ownership ledger, C02) ------------- *)
  Section TrFin.
    Variable T U : St -> list ev -> Prop.
    Variable F : list ev -> Prop.
    Hypothesis U_cont : forall s t i a s' eh wkr, U s t -> awaited s i = true -> i < slots s ->
        handle s i a = (s', Cont, eh) -> U s' (t ++ EC (member s i) wkr :: EAns a :: strip eh).
    Hypothesis U_stop : forall s t i a s' r o eh wkr, U s t -> awaited s i = true -> i < slots s ->
        handle s i a = (s', Stop r o, eh) -> T (after_stop s') (t ++ EC (member s i) wkr :: EAns a :: strip eh ++ [EEndR o]).
    Hypothesis U_abort : forall s t i a s' eh wkr, U s t -> awaited s i = true -> i < slots s ->
        handle s i a = (s', Abort, eh) -> F ((t ++ EC (member s i) wkr :: EAns a :: strip eh) ++ ED :: strip (drop_all s) ++ [EEndX]).
    Hypothesis T_order : forall s is s1 t, order s = Some (is, s1) -> T s t -> U s1 t.
    Hypothesis T_noorder : forall s t, order s = None -> T s t -> F (t ++ ED :: strip (drop_all s) ++ [EEndX]).
    Hypothesis U_finish : forall s t, U s t ->
        match snd (finish s) with Some o => T (fst (finish s)) (t ++ [EEndR o]) | None => T (fst (finish s)) (t ++ [EEndP]) end.
    Hypothesis T_pre : forall s t o, T s t -> pre_exit s = Some o -> T s (t ++ [EEndR o]).
    Hypothesis T_endp : forall s t, pre_exit s = None -> T s t -> T s (t ++ [EEndP]).
    Hypothesis U_endp : any_per_iter = true -> forall s t, U s t -> T s (t ++ [EEndP]).
    Hypothesis T_Q : forall s t, T s t -> Q s.
    Hypothesis U_Q : forall s t, U s t -> Q s.
    Hypothesis T_drop : forall s t, T s t -> F (t ++ ED :: strip (drop_all s)).
    Hypothesis F_drop : forall t, F t -> F (t ++ [ED]).
    Hypothesis T_mut : forall w m a sc, dropped w = false -> T (cs w) (strip (tr w)) ->
        if dropped (mutate w m a sc) then F (strip (tr (mutate w m a sc))) else T (cs (mutate w m a sc)) (strip (tr (mutate w m a sc))).

    Definition DW (w: world) := if dropped w then F (strip (tr w)) else T (cs w) (strip (tr w)).
    Definition ULf (w: world) := dropped w = false /\ U (cs w) (strip (tr w)).

    Lemma strip_unwind w : strip (tr (unwind w)) = strip (tr w) ++ ED :: strip (drop_all (cs w)) ++ [EEndX].
    Proof. unfold unwind. cbn. rewrite strip_app. cbn. rewrite strip_app. reflexivity. Qed.

    Definition vres_D (r: vres) : Prop :=
      match r with
      | VCont w => ULf w
      | VPending w => any_per_iter = true /\ ULf w
      | VReady w o => dropped w = false /\ T (after_stop (cs w)) (strip (tr w) ++ [EEndR o])
      | VAbort w => F (strip (tr (unwind w)))
      end.

    Lemma poll_child_D w i pid : aw w i = true -> i < N w -> ULf w -> vres_D (poll_child w i pid).
    Proof.
      intros Ha Hi [Hd HT]. unfold poll_child.
      destruct (pop w (member (cs w) i)) as [stp sc'].
      set (m := member (cs w) i). set (wkr := if sel w then WSub i else WPar pid).
      match goal with |- context[fires_of ?W _ _] => set (w1 := W) end.
      destruct (fires_of_T w1 m (fires stp)) as (Hc & Hdr & Ht).
      set (w2 := fires_of w1 m (fires stp)) in *.
      assert (Hc2 : cs w2 = cs w) by (rewrite Hc; reflexivity).
      assert (Hd2 : dropped w2 = false) by (rewrite Hdr; exact Hd).
      assert (Ht2 : strip (tr w2) = strip (tr w) ++ [EC m wkr]).
      { rewrite Ht. unfold w1. cbn. rewrite strip_app. reflexivity. }
      rewrite Hc2.
      pose proof (U_cont (cs w) (strip (tr w)) i (answer stp)) as Hcont.
      pose proof (U_stop (cs w) (strip (tr w)) i (answer stp)) as Hstop.
      pose proof (U_abort (cs w) (strip (tr w)) i (answer stp)) as Habort.
      destruct (handle (cs w) i (answer stp)) as [[s' a] eh] eqn:Eh.
      assert (Ht3 : strip (tr (emit w2 (EAns (answer stp) :: eh))) = strip (tr w) ++ EC m wkr :: EAns (answer stp) :: strip eh).
      { cbn [tr emit]. rewrite strip_app, Ht2, <- app_assoc. reflexivity. }
      destruct a as [|r o|]; cbn [vres_D].
      - split; [exact Hd2|]. cbn [cs tr set_cs]. change (tr (emit w2 (EAns (answer stp) :: eh))) with (tr (emit w2 (EAns (answer stp) :: eh))).
        rewrite Ht3. eapply Hcont; eauto.
      - assert (X : forall wx, dropped wx = false -> cs wx = s' -> strip (tr wx) = strip (tr w) ++ EC m wkr :: EAns (answer stp) :: strip eh ->
                    dropped wx = false /\ T (after_stop (cs wx)) (strip (tr wx) ++ [EEndR o])).
        { intros wx Hx -> ->. split; auto. rewrite <- app_assoc. cbn [app]. eapply Hstop; eauto. }
        unfold apply_rearm. destruct (sel (set_cs (emit w2 (EAns (answer stp) :: eh)) s')); [destruct r|]; apply X; auto.
      - rewrite strip_unwind, Ht3. change (cs (emit w2 (EAns (answer stp) :: eh))) with (cs w2). rewrite Hc2. eapply Habort; eauto.
    Qed.

    Lemma visit_D w i pid : i < N w -> ULf w -> vres_D (visit w i pid).
    Proof.
      intros Hi HT. unfold visit. destruct (any_per_iter && negb (any_ready w)) eqn:Eany; [apply andb_true_iff in Eany as [Eany _]; split; [exact Eany|exact HT]|].
      assert (Hcl : forall w1 was, clear_bit w i = (w1, was) -> cs w1 = cs w /\ dropped w1 = dropped w /\ tr w1 = tr w).
      { unfold clear_bit. intros w1 was E. destruct (sel w); [destruct (nth i (bits w) false)|]; inversion E; subst; auto. }
      destruct (clear_bit w i) as [w1 was] eqn:Ec. destruct (Hcl w1 was eq_refl) as (Hc & Hd & Ht).
      assert (HT1 : ULf w1) by (unfold ULf; rewrite Hc, Hd, Ht; exact HT).
      destruct clear_first.
      - destruct was; [|exact HT]. destruct (awaited (cs w) i) eqn:Ea; [|exact HT1].
        apply poll_child_D; auto; unfold aw, N; rewrite ?Hc; auto.
      - destruct (awaited (cs w) i) eqn:Ea; [|exact HT]. destruct was; [|exact HT].
        apply poll_child_D; auto; unfold aw, N; rewrite ?Hc; auto.
    Qed.

    Lemma scan_D w is pid : (forall i, In i is -> i < N w) -> ULf w -> vres_D (scan w is pid).
    Proof.
      revert w. induction is as [|i rest IH]; intros w Hin HT; cbn [scan]; [exact HT|].
      pose proof (visit_P (fun s _ => Q s) (fun s sc i stp sc' Ha Hi _ HQ => Q_handle s i (answer stp) HQ Ha Hi) w i pid (Hin i (or_introl eq_refl)) (U_Q _ _ (proj2 HT))) as [_ Hn].
      pose proof (visit_D w i pid (Hin i (or_introl eq_refl)) HT) as Hg.
      destruct (visit w i pid) as [w'|w'|w' o|w']; cbn in Hn, Hg; auto.
      apply IH; auto. intros j Hj. rewrite Hn. apply Hin. right; auto.
    Qed.

    Lemma DW_live w : dropped w = false -> T (cs w) (strip (tr w)) -> DW w.
    Proof. intros H X. unfold DW. rewrite H. exact X. Qed.

    Lemma poll_D w pid np : dropped w = false -> T (cs w) (strip (tr w)) -> DW (poll w pid np).
    Proof.
      intros Hd HT. unfold poll.
      assert (Hmf : forall w' o, DW w' -> DW (mark_final w' o)) by (intros w' o H; unfold mark_final; destruct (final o); exact H).
      assert (Hunw : forall w', F (strip (tr (unwind w'))) -> DW (unwind w')) by (intros w' X; exact X).
      destruct (pre_exit (cs w)) as [o|] eqn:Epre.
      { apply Hmf. apply DW_live; [exact Hd|]. cbn. rewrite strip_app. cbn. eapply T_pre; eauto. }
      set (w0 := begin_poll w pid np).
      assert (HT0 : dropped w0 = false /\ T (cs w0) (strip (tr w0))).
      { split; [exact Hd|]. unfold w0. cbn. rewrite strip_app. cbn. rewrite app_nil_r. exact HT. }
      destruct (pre_any (cs w0) && negb (any_ready w0)).
      { apply DW_live; [exact Hd|]. cbn. rewrite !strip_app. cbn. rewrite app_nil_r. apply T_endp; [exact Epre|exact HT]. }
      destruct (order (cs w0)) as [[is s1]|] eqn:Eo.
      2:{ apply Hunw. rewrite strip_unwind. apply T_noorder; [exact Eo|apply HT0]. }
      assert (HT1 : ULf (set_cs w0 s1)) by (split; [exact Hd|]; cbn; eapply T_order; eauto; apply HT0).
      assert (Hin : forall i, In i is -> i < N (set_cs w0 s1)).
      { intros i Hi. unfold N; cbn. rewrite (order_slots (cs w0) is s1 Eo). apply (order_bound (cs w0) is s1 (T_Q _ _ (proj2 HT0)) Eo i Hi). }
      pose proof (scan_D (set_cs w0 s1) is pid Hin HT1) as Hg.
      destruct (scan (set_cs w0 s1) is pid) as [w1|w1|w1 o|w1]; cbn [vres_D] in Hg.
      - destruct Hg as [Hd1 Hg]. pose proof (U_finish _ _ Hg) as Hf. destruct (finish (cs w1)) as [s2 [x|]] eqn:Ef; cbn [fst snd] in Hf.
        + apply Hmf. apply DW_live; [exact Hd1|]. cbn. rewrite strip_app. exact Hf.
        + apply DW_live; [exact Hd1|]. cbn. rewrite strip_app. exact Hf.
      - destruct Hg as [Eany [Hd1 Hg]]. apply DW_live; [exact Hd1|]. cbn. rewrite strip_app. cbn. apply U_endp; auto.
      - destruct Hg as [Hd1 Hg]. apply Hmf. apply DW_live; [exact Hd1|]. cbn. rewrite strip_app. exact Hg.
      - apply Hunw. exact Hg.
    Qed.

    Lemma DW_step w o : DW w -> DW (step_op w o).
    Proof.
      intros HT. destruct o; cbn [step_op].
      - destruct (finished w || dropped w) eqn:E; auto. apply orb_false_iff in E as [_ E]. apply poll_D; auto. unfold DW in HT. rewrite E in HT. exact HT.
      - destruct (finished w || dropped w) eqn:E; auto. apply orb_false_iff in E as [_ E]. apply poll_D; auto. unfold DW in HT. rewrite E in HT. exact HT.
      - destruct (fire_handle_T (emit w [EO]) c k) as (A & B & C). unfold DW in *. rewrite A, B, C. cbn. rewrite strip_app. cbn.
        rewrite app_nil_r. exact HT.
      - unfold DW in HT. destruct (dropped w) eqn:E; unfold DW; cbn; rewrite strip_app.
        + apply F_drop. exact HT.
        + cbn. apply T_drop. exact HT.
      - unfold DW in HT. destruct (dropped w) eqn:E; [unfold DW; rewrite E; exact HT|]. unfold DW. apply T_mut; auto.
    Qed.
    Theorem DW_run ops : forall w, DW w -> DW (run_ops w ops).
    Proof. induction ops as [|o r IH]; intros w HT; cbn; auto. apply IH, DW_step, HT. Qed.
    (* once the combinator is gone (dropped by the caller, or unwound), its complete observable history satisfies F;
       every history can be closed by a drop (the harness always does) *)
    Theorem F_dropped ops w : DW w -> dropped (run_ops w ops) = true -> F (strip (tr (run_ops w ops))).
    Proof. intros H Hd. pose proof (DW_run ops w H) as X. unfold DW in X. rewrite Hd in X. exact X. Qed.
    Theorem F_final ops w : DW w -> F (strip (tr (run_ops w (ops ++ [ODrop])))).
    Proof.
      intros H. apply F_dropped; auto. unfold run_ops. rewrite fold_left_app. cbn.
      destruct (dropped (fold_left step_op ops w)); reflexivity.
    Qed.
  End TrFin.

  (* ------------- the non-selective strategy (alloc-only, no_std): every awaited child is polled in every poll ------------- *)
  Section NonSel.
    Definition KN (w: world) := sel w = false /\ length (g_polled w) = N w /\ Q (cs w).
    Definition InvN (w: world) := KN w /\ (g_retpend w = true -> g_quiet w = true -> AllPolled w).
    Hypothesis mutate_invN : forall w m a sc, InvN w -> InvN (mutate w m a sc).

    Lemma do_fire_N w j : cs (do_fire w j) = cs w /\ sel (do_fire w j) = sel w /\ g_polled (do_fire w j) = g_polled w /\
      g_retpend (do_fire w j) = g_retpend w /\ g_quiet (do_fire w j) = g_quiet w.
    Proof. unfold do_fire. destruct (j <? N w); auto. destruct (nth j (bits w) true); cbn; auto. Qed.
    Lemma fire_handle_N w c k : cs (fire_handle w c k) = cs w /\ sel (fire_handle w c k) = sel w /\ g_polled (fire_handle w c k) = g_polled w /\
      g_retpend (fire_handle w c k) = g_retpend w /\ g_quiet (fire_handle w c k) = g_quiet w.
    Proof.
      unfold fire_handle. destruct (nth_error (nth c (handed w) []) k) as [[slot|pid]|]; auto.
      destruct (do_fire_N (emit w [EF c k]) slot) as (A & B & C & D & E). rewrite A, B, C, D, E. auto.
    Qed.
    Lemma fires_of_N w me hs : cs (fires_of w me hs) = cs w /\ sel (fires_of w me hs) = sel w /\ g_polled (fires_of w me hs) = g_polled w /\
      g_retpend (fires_of w me hs) = g_retpend w /\ g_quiet (fires_of w me hs) = g_quiet w.
    Proof.
      revert w. induction hs as [|h r IH]; intros w; cbn [fires_of]; auto.
      destruct (match h with HSelf => (me, length (nth me (handed w) []) - 1) | HOf c k => (c, k) end) as [c k].
      destruct (IH (fire_handle w c k)) as (A & B & C & D & E). destruct (fire_handle_N w c k) as (A' & B' & C' & D' & E').
      rewrite A, B, C, D, E. auto.
    Qed.
    Lemma InvN_fire_handle w c k : InvN w -> InvN (fire_handle w c k).
    Proof.
      intros [(Hs & Hl & HQ) HA]. destruct (fire_handle_N w c k) as (A & B & C & D & E).
      unfold InvN, KN, AllPolled, aw, polled, N in *. rewrite A, B, C, D, E. auto.
    Qed.

    (* awaited children seen so far in this scan have been polled; awaited only shrinks *)
    Definition JN (aw0: nat -> bool) (vis: list nat) (w: world) :=
      KN w /\ (forall i, In i vis -> i < N w -> aw w i = true -> polled w i = true) /\ (forall i, aw w i = true -> aw0 i = true).
    Definition vres_JN aw0 n vis i (r: vres) : Prop :=
      match r with
      | VCont w => JN aw0 (i :: vis) w /\ N w = n
      | VPending w => False
      | VReady w o => KN w /\ N w = n
      | VAbort w => KN w
      end.

    Lemma poll_child_JN aw0 vis w i pid : aw w i = true -> i < N w -> JN aw0 vis w -> vres_JN aw0 (N w) vis i (poll_child w i pid).
    Proof.
      intros Ha Hi ((Hs & Hl & HQ) & Hv & Hm). unfold poll_child.
      destruct (pop w (member (cs w) i)) as [stp sc'].
      match goal with |- context[fires_of ?W _ _] => set (w1 := W) end.
      destruct (fires_of_N w1 (member (cs w) i) (fires stp)) as (A & B & C & _ & _).
      set (w2 := fires_of w1 (member (cs w) i) (fires stp)) in *.
      assert (Hc2 : cs w2 = cs w) by (rewrite A; reflexivity).
      assert (Hs2 : sel w2 = false) by (rewrite B; exact Hs).
      assert (Hp2 : g_polled w2 = upd (g_polled w) i true) by (rewrite C; reflexivity).
      rewrite Hc2.
      pose proof (handle_slots (cs w) i (answer stp)) as Hsl.
      pose proof (Q_handle (cs w) i (answer stp) HQ Ha Hi) as HQ'.
      pose proof (handle_cont_other (cs w) i (answer stp)) as Hoth.
      pose proof (handle_cont_self (cs w) i (answer stp)) as Hself.
      destruct (handle (cs w) i (answer stp)) as [[s' a] eh] eqn:Eh. cbn [fst] in *.
      destruct a as [|r o|]; cbn [vres_JN].
      3:{ unfold KN, N. cbn. rewrite Hs2, Hp2, upd_length, Hc2. auto. }
      - split; [|unfold N; cbn; exact Hsl]. split; [|split].
        + unfold KN, N. cbn. rewrite Hs2, Hp2, upd_length, Hsl. auto.
        + unfold aw, polled, N. cbn. rewrite Hp2, Hsl. intros j Hj Hjn Haj. destruct (Nat.eq_dec i j) as [<-|Hne].
          * apply nth_upd_same. unfold N in Hl. lia.
          * rewrite nth_upd_other by auto. destruct Hj as [Hj|Hj]; [congruence|]. apply Hv; auto.
            unfold aw. rewrite <- (Hoth s' eh eq_refl j) by auto. exact Haj.
        + unfold aw. cbn. intros j Haj. apply Hm. unfold aw. destruct (Nat.eq_dec j i) as [->|Hne]; [exact Ha|].
          rewrite <- (Hoth s' eh eq_refl j) by auto. exact Haj.
      - unfold apply_rearm. cbn [sel set_cs emit]. rewrite Hs2. split; [|unfold N; cbn; exact Hsl].
        unfold KN, N. cbn. rewrite Hs2, Hp2, upd_length, Hsl. auto.
    Qed.

    Lemma visit_JN aw0 vis w i pid : i < N w -> JN aw0 vis w -> vres_JN aw0 (N w) vis i (visit w i pid).
    Proof.
      intros Hi HJ. pose proof HJ as ((Hs & Hl & HQ) & Hv & Hm). unfold visit, any_ready, clear_bit. rewrite Hs, andb_false_r.
      assert (Hskip : aw w i = false -> vres_JN aw0 (N w) vis i (VCont w)).
      { intros Hna. cbn. split; [|reflexivity]. split; [split; auto|]. split; [|exact Hm].
        intros j [<-|Hj] Hjn Haj; [congruence|apply Hv; auto]. }
      destruct clear_first; destruct (awaited (cs w) i) eqn:Ea; auto using poll_child_JN.
    Qed.

    Lemma scan_JN aw0 is : forall vis w pid, (forall i, In i is -> i < N w) -> JN aw0 vis w ->
      match scan w is pid with
      | VCont w' => JN aw0 (rev is ++ vis) w' /\ N w' = N w
      | VPending _ => False
      | VReady w' _ => KN w' /\ N w' = N w
      | VAbort w' => KN w'
      end.
    Proof.
      induction is as [|i rest IH]; intros vis w pid Hin HJ; cbn [scan rev app]; [auto|].
      pose proof (visit_JN aw0 vis w i pid (Hin i (or_introl eq_refl)) HJ) as Hv.
      destruct (visit w i pid) as [w'|w'|w' o|w']; cbn [vres_JN] in Hv; auto.
      destruct Hv as [HJ' Hn]. specialize (IH (i :: vis) w' pid).
      assert (Hin' : forall j, In j rest -> j < N w') by (intros j Hj; rewrite Hn; apply Hin; right; auto).
      specialize (IH Hin' HJ'). destruct (scan w' rest pid) as [w''|w''|w'' o|w'']; auto.
      - rewrite <- app_assoc. cbn [app]. rewrite <- Hn. exact IH.
      - rewrite <- Hn. exact IH.
    Qed.

    Lemma KN_passive w w' : sel w' = sel w -> g_polled w' = g_polled w -> cs w' = cs w -> KN w -> KN w'.
    Proof. intros A B C (Hs & Hl & HQ). unfold KN, N. rewrite A, B, C. auto. Qed.

    Lemma InvN_poll w pid np : InvN w -> InvN (poll w pid np).
    Proof.
      intros [HK HA]. pose proof HK as (Hs & Hl & HQ). unfold poll.
      assert (Hmf : forall w' o, InvN w' -> InvN (mark_final w' o)) by (intros w' o H; unfold mark_final; destruct (final o); exact H).
      assert (Hnr : forall w', KN w' -> InvN (set_ret w' false)) by (intros w' H; split; [exact H|intros X; discriminate]).
      assert (Hunw : forall w', KN w' -> InvN (unwind w')) by (intros w' H; split; [exact H|intros X; discriminate]).
      destruct (pre_exit (cs w)); [apply Hmf, Hnr; exact HK|].
      set (w0 := begin_poll w pid np).
      assert (HK0 : KN w0) by exact HK.
      unfold any_ready. replace (sel w0) with false by (symmetry; exact Hs). rewrite andb_false_r.
      destruct (order (cs w0)) as [[is s1]|] eqn:Eo; [|apply Hunw; exact HK0].
      set (w1 := set_cs w0 s1).
      assert (HK1 : KN w1).
      { unfold KN, N, w1. cbn. rewrite (order_slots (cs w) is s1 Eo). split; [exact Hs|]. split; [exact Hl|]. eapply Q_order; eauto. }
      assert (Hin : forall i, In i is -> i < N w1).
      { intros i Hi. unfold N, w1; cbn. rewrite (order_slots (cs w) is s1 Eo). apply (order_bound (cs w) is s1 HQ Eo i Hi). }
      assert (HJ1 : JN (aw w1) [] w1) by (split; [exact HK1|]; split; [intros i []|auto]).
      pose proof (scan_JN (aw w1) is [] w1 pid Hin HJ1) as Hsc.
      destruct (scan w1 is pid) as [w2|w2|w2 o|w2]; [|contradiction| |].
      - destruct Hsc as [(HK2 & Hv2 & Hm2) Hn2]. pose proof HK2 as (Hs2 & Hl2 & HQ2).
        destruct (finish (cs w2)) as [s3 [x|]] eqn:Ef.
        + apply Hmf, Hnr. unfold KN, N. cbn. pose proof (finish_slots (cs w2)) as X. rewrite Ef in X. cbn in X. rewrite X.
          split; [exact Hs2|]. split; [exact Hl2|]. pose proof (Q_finish (cs w2) HQ2) as Y. rewrite Ef in Y. exact Y.
        + assert (HK3 : KN (set_cs w2 s3)).
          { unfold KN, N. cbn. pose proof (finish_slots (cs w2)) as X. rewrite Ef in X. cbn in X. rewrite X.
            split; [exact Hs2|]. split; [exact Hl2|]. pose proof (Q_finish (cs w2) HQ2) as Y. rewrite Ef in Y. exact Y. }
          split; [exact HK3|]. intros _ _ i Hi Hai. unfold aw, polled, N in *. cbn in *.
          pose proof (finish_slots (cs w2)) as X. rewrite Ef in X. cbn in X. rewrite X in Hi.
          pose proof (finish_aw (cs w2) i HQ2) as Y. rewrite Ef in Y. cbn in Y. rewrite Y in Hai.
          apply Hv2; auto. rewrite app_nil_r. apply in_rev. rewrite rev_involutive.
          apply (order_cover (cs w) is s1 HQ Eo).
          * rewrite <- (order_slots (cs w) is s1 Eo). unfold w1 in Hn2. cbn in Hn2. rewrite <- Hn2. exact Hi.
          * rewrite <- (order_aw (cs w) is s1 Eo i). apply (Hm2 i Hai).
      - destruct Hsc as [HK2 Hn2]. pose proof HK2 as (Hs2 & Hl2 & HQ2). apply Hmf, Hnr.
        unfold KN, N. cbn. rewrite after_slots. split; [exact Hs2|]. split; [exact Hl2|]. apply Q_after; auto.
      - apply Hunw. exact Hsc.
    Qed.

    (* C01 under the non-selective strategy: every waker a child has ever been handed is a parent waker, so firing it wakes that parent *)
    Definition is_par (wk0: wk) : Prop := match wk0 with WPar _ => True | WSub _ => False end.
    Definition HP (w: world) := sel w = false /\ Forall (Forall is_par) (handed w).
    Hypothesis mutate_HP : forall w m a sc, HP w -> HP (mutate w m a sc).
    Lemma do_fire_H w j : sel (do_fire w j) = sel w /\ handed (do_fire w j) = handed w.
    Proof. unfold do_fire. destruct (j <? N w); auto. destruct (nth j (bits w) true); auto. Qed.
    Lemma fire_handle_H w c k : sel (fire_handle w c k) = sel w /\ handed (fire_handle w c k) = handed w.
    Proof.
      unfold fire_handle. destruct (nth_error (nth c (handed w) []) k) as [[slot|pid]|]; auto.
      destruct (do_fire_H (emit w [EF c k]) slot) as [A B]. rewrite A, B. auto.
    Qed.
    Lemma fires_of_H w me hs : sel (fires_of w me hs) = sel w /\ handed (fires_of w me hs) = handed w.
    Proof.
      revert w. induction hs as [|h r IH]; intros w; cbn [fires_of]; auto.
      destruct (match h with HSelf => (me, length (nth me (handed w) []) - 1) | HOf c k => (c, k) end) as [c k].
      destruct (IH (fire_handle w c k)) as [A B]. destruct (fire_handle_H w c k) as [A' B']. rewrite A, B. auto.
    Qed.
    Lemma Forall_upd {A} (P: A -> Prop) (l: list A) i x : Forall P l -> P x -> Forall P (upd l i x).
    Proof. revert i. induction l as [|a l IH]; intros [|i] Hl Hx; cbn; auto; inversion Hl; subst; constructor; auto. Qed.
    Lemma Forall_nth_d {A} (P: A -> Prop) (l: list A) i d : Forall P l -> P d -> P (nth i l d).
    Proof. revert i. induction l as [|a l IH]; intros [|i] Hl Hd; cbn; auto; inversion Hl; subst; auto. Qed.
    Definition vres_H (r: vres) : Prop := match r with VCont w | VPending w | VReady w _ | VAbort w => HP w end.
    Lemma poll_child_H w i pid : HP w -> vres_H (poll_child w i pid).
    Proof.
      intros [Hs Hh]. unfold poll_child. destruct (pop w (member (cs w) i)) as [stp sc'].
      match goal with |- context[fires_of ?W _ _] => set (w1 := W) end.
      assert (H1 : HP w1).
      { unfold HP, w1. cbn. split; [exact Hs|]. rewrite Hs. apply Forall_upd; auto. apply Forall_app. split; [|constructor; [exact I|constructor]].
        apply Forall_nth_d; auto. }
      destruct (fires_of_H w1 (member (cs w) i) (fires stp)) as [A B].
      set (w2 := fires_of w1 (member (cs w) i) (fires stp)) in *.
      assert (H2 : HP w2) by (destruct H1 as [X Y]; split; [rewrite A; exact X|rewrite B; exact Y]).
      destruct (handle (cs w2) i (answer stp)) as [[s' a] eh]. destruct a as [|r o|]; cbn [vres_H]; try exact H2.
      unfold apply_rearm. cbn [sel set_cs emit]. destruct H2 as [X Y]. rewrite X. split; [exact X|exact Y].
    Qed.
    Lemma visit_H w i pid : HP w -> vres_H (visit w i pid).
    Proof.
      intros H. pose proof H as [Hs Hh]. unfold visit. destruct (any_per_iter && negb (any_ready w)); [exact H|].
      unfold clear_bit. rewrite Hs. destruct clear_first; [destruct (awaited (cs w) i)|destruct (awaited (cs w) i)]; try exact H; apply poll_child_H; exact H.
    Qed.
    Lemma scan_H is : forall w pid, HP w -> vres_H (scan w is pid).
    Proof.
      induction is as [|i rest IH]; intros w pid H; cbn [scan]; [exact H|].
      pose proof (visit_H w i pid H) as Hv. destruct (visit w i pid); cbn [vres_H] in Hv; auto.
    Qed.
    Lemma HP_poll w pid np : HP w -> HP (poll w pid np).
    Proof.
      intros H. unfold poll.
      assert (Hmf : forall w' o, HP w' -> HP (mark_final w' o)) by (intros w' o X; unfold mark_final; destruct (final o); exact X).
      destruct (pre_exit (cs w)); [apply Hmf; exact H|].
      set (w0 := begin_poll w pid np). assert (H0 : HP w0) by exact H.
      destruct (pre_any (cs w0) && negb (any_ready w0)); [exact H0|].
      destruct (order (cs w0)) as [[is s1]|]; [|exact H0].
      pose proof (scan_H is (set_cs w0 s1) pid H0) as Hs.
      destruct (scan (set_cs w0 s1) is pid) as [w1|w1|w1 o|w1]; cbn [vres_H] in Hs.
      - destruct (finish (cs w1)) as [s2 [x|]]; [apply Hmf|]; exact Hs.
      - exact Hs.
      - apply Hmf. exact Hs.
      - exact Hs.
    Qed.
    Lemma HP_run ops : forall w, HP w -> HP (run_ops w ops).
    Proof.
      induction ops as [|o r IH]; intros w H; cbn; auto. apply IH. destruct o; cbn [step_op].
      - destruct (finished w || dropped w); auto. apply HP_poll; auto.
      - destruct (finished w || dropped w); auto. apply HP_poll; auto.
      - destruct (fire_handle_H (emit w [EO]) c k) as [A B]. destruct H as [X Y]. split; [rewrite A; exact X|rewrite B; exact Y].
      - destruct (dropped w); exact H.
      - destruct (dropped w); auto.
    Qed.
    Theorem C01_nonsel w0 ops c k : HP w0 -> let w := run_ops w0 ops in
      forall wk0, nth_error (nth c (handed w) []) k = Some wk0 ->
      exists pid, wk0 = WPar pid /\ tr (fire_handle w c k) = tr w ++ [EF c k; EW pid].
    Proof.
      intros H0 w wk0 E. destruct (HP_run ops w0 H0) as [_ Hh]. fold w in Hh.
      assert (Hp : is_par wk0).
      { assert (Hc : Forall is_par (nth c (handed w) [])) by (apply Forall_nth_d; auto).
        rewrite Forall_forall in Hc. apply Hc. eapply nth_error_In; eauto. }
      destruct wk0 as [slot|pid]; [contradiction|]. exists pid. split; [reflexivity|]. unfold fire_handle. rewrite E. reflexivity.
    Qed.

    (* group mutations *)
    Lemma InvN_emit w es : InvN w -> InvN (emit w es). Proof. intros H; exact H. Qed.
    Lemma InvN_flags w f d g : InvN w -> InvN (set_flags w f d g). Proof. intros H; exact H. Qed.
    Lemma InvN_grow w s' m : InvN w -> Q s' -> slots s' = N w + m ->
      (forall i, i < N w -> awaited s' i = aw w i) -> (forall i, N w <= i -> awaited s' i = false) -> InvN (w_grow w s' m).
    Proof.
      intros [(Hs & Hl & HQ) HA] HQ' Hsl Hold Hnew. split.
      - unfold KN, N. cbn. rewrite app_length, repeat_length, Hsl. unfold N in Hl. rewrite Hl. auto.
      - intros Hr Hq i Hi Hai. specialize (HA Hr Hq). unfold N in Hi. cbn [cs w_grow] in Hi. rewrite Hsl in Hi.
        unfold aw in Hai. cbn [cs w_grow] in Hai.
        destruct (Nat.lt_ge_cases i (N w)) as [Hlt|Hge]; [|rewrite Hnew in Hai by auto; discriminate].
        unfold polled. cbn [g_polled w_grow]. rewrite app_nth1 by lia. apply (HA i Hlt). rewrite <- Hold; auto.
    Qed.
    Lemma InvN_occupy w s' k sc : InvN w -> Q s' -> slots s' = N w -> k < N w -> InvN (w_occupy w s' k sc).
    Proof.
      intros [(Hs & Hl & HQ) HA] HQ' Hsl Hk. split; [|cbn; intros _ X; discriminate].
      unfold KN, N. cbn. rewrite upd_length, Hsl. auto.
    Qed.
    Lemma InvN_vacate w s' k : InvN w -> Q s' -> slots s' = N w -> (forall i, awaited s' i = true -> aw w i = true) -> InvN (w_vacate w s' k).
    Proof.
      intros [(Hs & Hl & HQ) HA] HQ' Hsl Hsub. split.
      - unfold KN, N. cbn. rewrite Hsl. auto.
      - intros Hr Hq i Hi Hai. specialize (HA Hr Hq). unfold N in Hi. cbn [cs w_vacate] in Hi. rewrite Hsl in Hi.
        unfold aw in Hai. cbn [cs w_vacate] in Hai. unfold polled. cbn [g_polled w_vacate]. apply (HA i Hi). apply Hsub. exact Hai.
    Qed.

    Lemma InvN_step w o : InvN w -> InvN (step_op w o).
    Proof.
      intros HI. destruct o; cbn [step_op].
      - destruct (finished w || dropped w); auto. apply InvN_poll, HI.
      - destruct (finished w || dropped w); auto. apply InvN_poll, HI.
      - apply InvN_fire_handle. exact HI.
      - destruct (dropped w); exact HI.
      - destruct (dropped w); auto.
    Qed.
    Lemma InvN_run ops : forall w, InvN w -> InvN (run_ops w ops).
    Proof. induction ops as [|o r IH]; intros w HI; cbn; auto. apply IH, InvN_step, HI. Qed.
    (* C20 for the non-selective strategy *)
    Theorem C20_nonsel w0 ops i : InvN w0 -> let w := run_ops w0 ops in
      g_retpend w = true -> g_quiet w = true -> i < N w -> aw w i = true -> polled w i = true.
    Proof. intros HI w Hr Hq Hi Ha. destruct (InvN_run ops w0 HI) as [_ HA]. apply (HA Hr Hq); auto. Qed.
  End NonSel.

  (* ------------- fairness of a rotating scan (C17): an input that always has an item wins whenever the scan starts at it ------------- *)
  Section Fair.
    Variable fi : nat.
    Definition itemp (a: ans) : Prop := match a with AItem _ => True | _ => False end.
    Definition prov (o: out) : option nat := match o with OSome k _ => k | _ => None end.
    Hypothesis member_id : forall s i, member s i = i.
    Hypothesis item_stop : forall s v, exists o, handle s fi (AItem v) = (s, Stop RSelf o, []) /\ prov o = Some fi.
    Hypothesis other_aw : forall s j a, j <> fi -> awaited s fi = true -> awaited (fst (fst (handle s j a))) fi = true.
    Hypothesis handle_quiet : forall s i a, results (snd (handle s i a)) = [].

    Definition GoodB (b: bool) (w: world) : Prop :=
      (b = true -> sel w = true -> nth fi (bits w) false = true) /\ aw w fi = true /\ fi < N w /\ length (bits w) = N w /\
      Forall (fun st => itemp (answer st)) (nth fi (scripts w) []).
    Definition GoodF := GoodB true.
    Definition scf (w: world) := nth fi (scripts w) [].

    Lemma do_fire_F b w j : GoodB b w -> GoodB b (do_fire w j) /\ scf (do_fire w j) = scf w /\ results (tr (do_fire w j)) = results (tr w).
    Proof.
      intros (Hb & Ha & Hi & Hl & Hs). unfold do_fire. destruct (j <? N w) eqn:Ej; [|repeat split; auto].
      destruct (nth j (bits w) true) eqn:Eb; [repeat split; auto|].
      split; [|split; [reflexivity|cbn; rewrite results_app; destruct (parent w); cbn; apply app_nil_r]].
      unfold GoodB, aw, N, scf. cbn. rewrite upd_length. repeat split; auto.
      intros Hbt Hsel. destruct (Nat.eq_dec j fi) as [->|Hne]; [apply nth_upd_same; unfold N in *; lia|rewrite nth_upd_other; auto].
    Qed.
    Lemma fire_handle_F b w c k : GoodB b w -> GoodB b (fire_handle w c k) /\ scf (fire_handle w c k) = scf w /\ results (tr (fire_handle w c k)) = results (tr w).
    Proof.
      intros HG. unfold fire_handle. destruct (nth_error (nth c (handed w) []) k) as [[slot|pid]|]; [| |auto].
      - assert (HG' : GoodB b (emit w [EF c k])) by exact HG.
        destruct (do_fire_F b (emit w [EF c k]) slot HG') as (A & B & C). split; [exact A|]. split; [rewrite B; reflexivity|].
        rewrite C. cbn. rewrite results_app. cbn. apply app_nil_r.
      - split; [exact HG|]. split; [reflexivity|]. cbn. rewrite results_app. cbn. apply app_nil_r.
    Qed.
    Lemma fires_of_F b w me hs : GoodB b w -> GoodB b (fires_of w me hs) /\ scf (fires_of w me hs) = scf w /\ results (tr (fires_of w me hs)) = results (tr w).
    Proof.
      revert w. induction hs as [|h r IH]; intros w HG; cbn [fires_of]; auto.
      destruct (match h with HSelf => (me, length (nth me (handed w) []) - 1) | HOf c k => (c, k) end) as [c k].
      destruct (fire_handle_F b w c k HG) as (A & B & C). destruct (IH _ A) as (A' & B' & C'). split; [exact A'|]. split; congruence.
    Qed.

    Definition vres_F (w0: world) (r: vres) : Prop :=
      match r with
      | VCont w' | VReady w' _ => GoodF w' /\ scf w' = scf w0 /\ results (tr w') = results (tr w0)
      | VPending _ => False
      | VAbort w' => results (tr w') = results (tr w0)
      end.

    Lemma poll_child_F_other w j pid : j <> fi -> GoodF w -> vres_F w (poll_child w j pid).
    Proof.
      intros Hne HG. unfold poll_child. rewrite member_id.
      assert (Hpop : scf (set_oracle w (snd (pop w j)) (upd (handed w) j (nth j (handed w) [] ++ [if sel w then WSub j else WPar pid]))) = scf w).
      { unfold scf, pop. cbn. destruct (nth j (scripts w) []); cbn; auto. apply nth_upd_other; auto. }
      destruct (pop w j) as [stp sc'] eqn:Ep. cbn [snd] in Hpop.
      match goal with |- context[fires_of ?W _ _] => set (w1 := W) end.
      assert (HG1 : GoodF w1 /\ scf w1 = scf w /\ results (tr w1) = results (tr w)).
      { destruct HG as (Hb & Ha & Hi & Hl & Hs). split; [|split; [exact Hpop|unfold w1; cbn; rewrite results_app; cbn; apply app_nil_r]].
        unfold scf in Hpop. cbn [scripts set_oracle] in Hpop.
        unfold GoodF, GoodB, aw, N, w1. cbn. repeat split; auto. rewrite Hpop. exact Hs. }
      destruct HG1 as (HG1 & Hs1 & Hr1).
      destruct (fires_of_F true w1 j (fires stp) HG1) as (HG2 & Hs2 & Hr2).
      set (w2 := fires_of w1 j (fires stp)) in *.
      pose proof (handle_slots (cs w2) j (answer stp)) as Hsl.
      pose proof (other_aw (cs w2) j (answer stp) Hne (proj1 (proj2 HG2))) as Haw.
      pose proof (handle_quiet (cs w2) j (answer stp)) as Hq.
      destruct (handle (cs w2) j (answer stp)) as [[s' a] eh] eqn:Eh. cbn [fst snd] in *.
      destruct HG2 as (Hb2 & Ha2 & Hi2 & Hl2 & Hsc2).
      assert (Hres : results (tr w2 ++ EAns (answer stp) :: eh) = results (tr w)).
      { rewrite results_app. cbn. rewrite Hq, app_nil_r. congruence. }
      destruct a as [|r o|]; cbn [vres_F]; [| |cbn; exact Hres].
      - split; [|split; [unfold scf in *; cbn; congruence|cbn; exact Hres]].
        unfold GoodF, GoodB, aw, N. cbn. rewrite Hsl. repeat split; auto.
      - unfold apply_rearm. cbn [sel set_cs emit].
        destruct (sel w2) eqn:Esel; [destruct r|]; (split; [|split; [unfold scf in *; cbn; congruence|cbn; exact Hres]]);
          unfold GoodF, GoodB, aw, N; cbn; rewrite ?Hsl, ?upd_length, ?map_length; repeat split; auto.
        + intros _ _. rewrite nth_upd_other by auto. auto.
        + intros _ _. unfold N in *. apply nth_map_true. lia.
        + intros _ X. congruence.
    Qed.
    Lemma poll_child_F_self w pid : GoodB false w -> scf w <> [] ->
      exists w' o, poll_child w fi pid = VReady w' o /\ prov o = Some fi /\ GoodF w' /\ results (tr w') = results (tr w) /\ scf w' = tl (scf w).
    Proof.
      intros HG Hne. unfold poll_child. rewrite member_id. pose proof HG as (Hb & Ha & Hi & Hl & Hs).
      unfold pop. unfold scf in Hne. destruct (nth fi (scripts w) []) as [|x rest] eqn:Esc; [contradiction|].
      assert (Hlt : fi < length (scripts w)).
      { destruct (Nat.lt_ge_cases fi (length (scripts w))); auto. rewrite nth_overflow in Esc by auto. discriminate. }
      inversion Hs as [|? ? Hx Hrest]; subst.
      match goal with |- context[fires_of ?W _ _] => set (w1 := W) end.
      assert (HG1 : GoodB false w1 /\ scf w1 = rest /\ results (tr w1) = results (tr w)).
      { split; [|split; [unfold scf, w1; cbn; apply nth_upd_same; auto|unfold w1; cbn; rewrite results_app; cbn; apply app_nil_r]].
        unfold GoodB, aw, N, w1 in *. cbn. split; [intros X; discriminate|]. split; [exact Ha|]. split; [exact Hi|]. split; [exact Hl|].
        rewrite nth_upd_same by auto. exact Hrest. }
      destruct HG1 as (HG1 & Hs1 & Hr1).
      destruct (fires_of_F false w1 fi (fires x) HG1) as (HG2 & Hs2 & Hr2).
      set (w2 := fires_of w1 fi (fires x)) in *.
      destruct (answer x) as [|r|v| |] eqn:Ex; try contradiction.
      destruct (item_stop (cs w2) v) as (o & Hh & Hp). rewrite Hh.
      destruct HG2 as (Hb2 & Ha2 & Hi2 & Hl2 & Hsc2).
      eexists. exists o. split; [reflexivity|]. split; [exact Hp|].
      assert (Hres : results (tr w2 ++ [EAns (AItem v)]) = results (tr w)) by (rewrite results_app; cbn; rewrite app_nil_r; congruence).
      unfold apply_rearm. cbn [sel set_cs emit].
      destruct (sel w2) eqn:Esel; (split; [|split; [cbn; exact Hres|unfold scf in *; cbn; rewrite Hs2, Hs1, Esc; reflexivity]]);
        unfold GoodF, GoodB, aw, N; cbn; rewrite ?upd_length; repeat split; auto.
      - intros _ _. apply nth_upd_same. unfold N in *. lia.
      - intros _ X. congruence.
    Qed.

    Lemma GoodB_clear w j : GoodF w -> j <> fi -> GoodF (fst (clear_bit w j)) /\ scf (fst (clear_bit w j)) = scf w /\ tr (fst (clear_bit w j)) = tr w.
    Proof.
      intros HG Hne. pose proof HG as (Hb & Ha & Hi & Hl & Hs). unfold clear_bit. destruct (sel w) eqn:Es.
      - destruct (nth j (bits w) false) eqn:Eb; cbn [fst].
        + split; [|split; reflexivity]. unfold GoodF, GoodB, aw, N in *. cbn. rewrite upd_length.
          split; [intros _ _; rewrite nth_upd_other by auto; auto|]. split; [exact Ha|]. split; [exact Hi|]. split; [exact Hl|exact Hs].
        + split; [exact HG|split; reflexivity].
      - cbn [fst]. split; [exact HG|split; reflexivity].
    Qed.

    Lemma visit_F_other w j pid : j <> fi -> GoodF w -> vres_F w (visit w j pid).
    Proof.
      intros Hne HG. pose proof HG as (Hb & Ha & Hi & Hl & Hs). unfold visit.
      assert (Hany : any_ready w = true).
      { unfold any_ready. destruct (sel w) eqn:Es; auto. apply existsb_exists. exists true. split; auto.
        rewrite <- (Hb eq_refl eq_refl). apply nth_In. unfold N in *. lia. }
      rewrite Hany, andb_false_r.
      destruct (GoodB_clear w j HG Hne) as (HG1 & Hs1 & Ht1).
      assert (Hsame : vres_F w (VCont w)) by (cbn; auto).
      destruct (clear_bit w j) as [w1 was]. cbn [fst] in *.
      assert (Hc1 : vres_F w (VCont w1)) by (cbn; split; [exact HG1|split; [exact Hs1|rewrite Ht1; reflexivity]]).
      assert (Hp1 : vres_F w (poll_child w1 j pid)).
      { pose proof (poll_child_F_other w1 j pid Hne HG1) as X. destruct (poll_child w1 j pid) as [wx|wx|wx ox|wx]; cbn [vres_F] in X |- *.
        - destruct X as (A & B & C). split; [exact A|split; [congruence|rewrite C, Ht1; reflexivity]].
        - exact X.
        - destruct X as (A & B & C). split; [exact A|split; [congruence|rewrite C, Ht1; reflexivity]].
        - rewrite X, Ht1. reflexivity. }
      destruct clear_first.
      - destruct was; auto. destruct (awaited (cs w) j); auto.
      - destruct (awaited (cs w) j); auto. destruct was; auto.
    Qed.

    Lemma visit_F_self w pid : GoodF w -> scf w <> [] ->
      exists w' o, visit w fi pid = VReady w' o /\ prov o = Some fi /\ GoodF w' /\ results (tr w') = results (tr w) /\ scf w' = tl (scf w).
    Proof.
      intros HG Hne. pose proof HG as (Hb & Ha & Hi & Hl & Hs). unfold visit.
      assert (Hany : any_ready w = true).
      { unfold any_ready. destruct (sel w) eqn:Es; auto. apply existsb_exists. exists true. split; auto.
        rewrite <- (Hb eq_refl eq_refl). apply nth_In. unfold N in *. lia. }
      rewrite Hany, andb_false_r.
      assert (Hcl : exists w1, clear_bit w fi = (w1, true) /\ GoodB false w1 /\ scf w1 = scf w /\ tr w1 = tr w).
      { unfold clear_bit. destruct (sel w) eqn:Es.
        - rewrite (Hb eq_refl eq_refl). eexists. split; [reflexivity|]. split; [|split; reflexivity].
          unfold GoodB, aw, N in *. cbn. rewrite upd_length. repeat split; auto; try (intros X; discriminate).
        - exists w. split; [reflexivity|]. split; [|split; reflexivity]. unfold GoodB. repeat split; auto; try (intros X; discriminate). }
      destruct Hcl as (w1 & Ec & HG1 & Hs1 & Ht1). rewrite Ec. unfold aw in Ha. rewrite Ha.
      assert (Hne1 : scf w1 <> []) by (rewrite Hs1; exact Hne).
      destruct (poll_child_F_self w1 pid HG1 Hne1) as (w' & o & E & P1 & P2 & P3 & P4).
      exists w', o. split; [destruct clear_first; exact E|]. split; [exact P1|]. split; [exact P2|]. split; [rewrite P3, Ht1; reflexivity|rewrite P4, Hs1; reflexivity].
    Qed.

    (* the scan: it cannot get past fi, and if it starts at fi, fi wins *)
    Lemma scan_F is : forall w pid, GoodF w -> (In fi is -> scf w <> []) ->
      match scan w is pid with
      | VCont w' => ~ In fi is /\ GoodF w' /\ scf w' = scf w /\ results (tr w') = results (tr w)
      | VPending _ => False
      | VReady w' o => GoodF w' /\ results (tr w') = results (tr w) /\ (hd_error is = Some fi -> prov o = Some fi) /\
                       (exists k, scf w' = skipn k (scf w))
      | VAbort w' => results (tr w') = results (tr w)
      end.
    Proof.
      induction is as [|j rest IH]; intros w pid HG Hsc; cbn [scan].
      - split; [intros []|]. split; [exact HG|]. split; reflexivity.
      - destruct (Nat.eq_dec j fi) as [->|Hne].
        + destruct (visit_F_self w pid HG (Hsc (or_introl eq_refl))) as (w' & o & E & P1 & P2 & P3 & P4). rewrite E.
          split; [exact P2|]. split; [exact P3|]. split; [auto|]. exists 1. rewrite P4. destruct (scf w); reflexivity.
        + pose proof (visit_F_other w j pid Hne HG) as Hv.
          destruct (visit w j pid) as [w1|w1|w1 o|w1]; cbn [vres_F] in Hv; auto.
          * destruct Hv as (A & B & C). specialize (IH w1 pid A). rewrite B in IH.
            assert (Hsc' : In fi rest -> scf w <> []) by (intros X; apply Hsc; right; exact X). specialize (IH Hsc').
            destruct (scan w1 rest pid) as [w2|w2|w2 o|w2]; auto.
            -- destruct IH as (I1 & I2 & I3 & I4). split; [intros [X|X]; [congruence|auto]|]. split; [auto|]. split; [auto|congruence].
            -- destruct IH as (I1 & I2 & I3 & I4). split; [auto|]. split; [congruence|]. split; [cbn; intros X; inversion X; congruence|exact I4].
            -- congruence.
          * destruct Hv as (A & B & C). split; [exact A|]. split; [exact C|]. split; [cbn; intros X; inversion X; congruence|]. exists 0. exact B.
    Qed.
    (* one poll: exactly one more result; fi wins if the rotation starts at it *)
    Variable off : St -> nat.
    Hypothesis pre_none : forall s, awaited s fi = true -> pre_exit s = None /\ pre_any s = false.
    Hypothesis off_order : forall s, Q s -> awaited s fi = true -> fi < slots s ->
      exists is s1, order s = Some (is, s1) /\ off s1 = (off s + 1) mod slots s /\ hd_error is = Some (off s) /\ In fi is.
    Hypothesis off_handle : forall s i a, off (fst (fst (handle s i a))) = off s.
    Hypothesis after_id : forall s, after_stop s = s.
    Hypothesis final_prov : forall o, prov o <> None -> final o = false.
    Hypothesis drop_quiet : forall s, results (drop_all s) = [].
    Hypothesis mut_id : forall w m a sc, mutate w m a sc = w.

    Lemma scan_cs is : forall w pid, match scan w is pid with VCont w' | VReady w' _ => off (cs w') = off (cs w) /\ dropped w' = dropped w | _ => True end.
    Proof.
      induction is as [|j rest IH]; intros w pid; cbn [scan]; auto.
      assert (Hv : match visit w j pid with VCont w' | VReady w' _ => off (cs w') = off (cs w) /\ dropped w' = dropped w | _ => True end).
      { unfold visit. destruct (any_per_iter && negb (any_ready w)); auto.
        assert (Hc : cs (fst (clear_bit w j)) = cs w /\ dropped (fst (clear_bit w j)) = dropped w) by (unfold clear_bit; destruct (sel w); [destruct (nth j (bits w) false)|]; split; reflexivity).
        assert (Hp : forall w1, cs w1 = cs w /\ dropped w1 = dropped w -> match poll_child w1 j pid with VCont w' | VReady w' _ => off (cs w') = off (cs w) /\ dropped w' = dropped w | _ => True end).
        { intros w1 [E Ed]. unfold poll_child. destruct (pop w1 (member (cs w1) j)) as [stp sc'].
          match goal with |- context[fires_of ?W _ _] => set (wa := W) end.
          destruct (fires_of_T wa (member (cs w1) j) (fires stp)) as (A & Bd & _).
          set (wb := fires_of wa (member (cs w1) j) (fires stp)) in *.
          assert (Ac : cs wb = cs w1) by (rewrite A; reflexivity).
          assert (Ad : dropped wb = dropped w1) by (rewrite Bd; reflexivity).
          rewrite Ac. pose proof (off_handle (cs w1) j (answer stp)) as Ho.
          destruct (handle (cs w1) j (answer stp)) as [[s' a] eh]. cbn [fst] in Ho. destruct a as [|r o|]; auto.
          - cbn [cs set_cs dropped emit]. rewrite Ho, E, Ad. split; [reflexivity|exact Ed].
          - assert (X : forall wx, cs (apply_rearm wx r j) = cs wx /\ dropped (apply_rearm wx r j) = dropped wx) by (intros wx; unfold apply_rearm; destruct (sel wx); [destruct r|]; split; reflexivity).
            destruct (X (set_cs (emit wb (EAns (answer stp) :: eh)) s')) as [X1 X2].
            rewrite X1, X2. cbn [cs set_cs dropped emit]. rewrite Ho, E, Ad. split; [reflexivity|exact Ed]. }
        destruct (clear_bit w j) as [w1 was]. cbn [fst] in Hc.
        assert (H1 : off (cs w1) = off (cs w) /\ dropped w1 = dropped w) by (destruct Hc as [-> ->]; auto).
        destruct clear_first.
        - destruct was; [|auto]. destruct (awaited (cs w) j); [apply Hp; exact Hc|exact H1].
        - destruct (awaited (cs w) j); [|auto]. destruct was; [apply Hp; exact Hc|auto]. }
      destruct (visit w j pid) as [w1|w1|w1 o|w1]; auto.
      specialize (IH w1 pid). destruct Hv as [Hv1 Hv2]. destruct (scan w1 rest pid); auto; destruct IH; split; congruence.
    Qed.

    Lemma poll_F w pid np : GoodF w -> Q (cs w) -> scf w <> [] -> dropped w = false ->
      let w' := poll w pid np in
      (dropped w' = true /\ results (tr w') = results (tr w)) \/
      (exists o, results (tr w') = results (tr w) ++ [o] /\ (off (cs w) = fi -> prov o = Some fi) /\ dropped w' = false /\
         (finished w' = false -> GoodF w' /\ Q (cs w') /\ off (cs w') = (off (cs w) + 1) mod N w /\ N w' = N w /\ exists k, scf w' = skipn k (scf w))).
    Proof.
      intros HG HQ Hne Hd. pose proof HG as (Hb & Ha & Hi & Hl & Hs). unfold poll.
      destruct (pre_none (cs w) Ha) as [Epre Eany]. rewrite Epre.
      set (w0 := begin_poll w pid np).
      assert (HG0 : GoodF w0) by exact HG.
      change (cs w0) with (cs w). rewrite Eany. cbn [andb].
      destruct (off_order (cs w) HQ Ha Hi) as (is & s1 & Eo & Eoff & Ehd & Hin). rewrite Eo.
      set (w1 := set_cs w0 s1).
      assert (HG1 : GoodF w1).
      { unfold GoodF, GoodB, aw, N, w1. cbn. rewrite (order_slots (cs w) is s1 Eo), (order_aw (cs w) is s1 Eo fi). exact HG. }
      assert (Hsc1 : scf w1 = scf w) by reflexivity.
      assert (Hr1 : results (tr w1) = results (tr w)) by (unfold w1, w0; cbn; rewrite results_app; cbn; apply app_nil_r).
      assert (HQ1 : Q (cs w1)) by (cbn; eapply Q_order; eauto).
      assert (Hbound : forall i, In i is -> i < N w1).
      { intros i Hi'. unfold N, w1; cbn. rewrite (order_slots (cs w) is s1 Eo). apply (order_bound (cs w) is s1 HQ Eo i Hi'). }
      pose proof (scan_F is w1 pid HG1 (fun _ => eq_ind_r (fun x => x <> []) Hne Hsc1)) as Hsf.
      pose proof (scan_cs is w1 pid) as Hcs.
      pose proof (scan_P (fun s _ => Q s /\ slots s = slots (cs w1))
                    (fun s sc i stp sc' Ha' Hi' _ HQ' => conj (Q_handle s i (answer stp) (proj1 HQ') Ha' Hi') (eq_trans (handle_slots s i (answer stp)) (proj2 HQ')))
                    w1 is pid Hbound (conj HQ1 eq_refl)) as HQs.
      destruct (scan w1 is pid) as [w2|w2|w2 o|w2].
      - exfalso. apply (proj1 Hsf). exact Hin.
      - contradiction.
      - right. destruct Hsf as (HG2 & Hr2 & Hpv & (k & Hk)). destruct Hcs as [Hoff2 Hd2]. cbn in HQs.
        exists o. rewrite after_id.
        assert (Hres : results (tr (mark_final (set_ret (emit (set_cs w2 (cs w2)) [EEndR o]) false) o)) = results (tr w) ++ [o]).
        { unfold mark_final. destruct (final o); cbn; rewrite results_app, Hr2, Hr1; reflexivity. }
        split; [exact Hres|]. split; [intros E; apply Hpv; rewrite Ehd, E; reflexivity|].
        assert (Hdd : dropped (mark_final (set_ret (emit (set_cs w2 (cs w2)) [EEndR o]) false) o) = false).
        { unfold mark_final. destruct (final o); cbn; rewrite Hd2; exact Hd. }
        split; [exact Hdd|]. intros Hfin.
        assert (Hsame : forall wx, cs wx = cs w2 -> bits wx = bits w2 -> sel wx = sel w2 -> scripts wx = scripts w2 -> GoodF wx).
        { intros wx E1 E2 E3 E4. unfold GoodF, GoodB, aw, N in *. rewrite E1, E2, E3, E4. exact HG2. }
        unfold mark_final in *. destruct (final o); cbn in Hfin; [discriminate|].
        split; [apply Hsame; reflexivity|]. cbn [cs set_ret emit set_cs]. destruct HQs as [HQs Hsl2]. split; [exact HQs|].
        split; [rewrite Hoff2; unfold w1; cbn; exact Eoff|]. split.
        + unfold N. cbn [cs set_ret emit set_cs]. rewrite Hsl2. unfold w1. cbn. apply (order_slots (cs w) is s1 Eo).
        + exists k. unfold scf in *. cbn. rewrite Hk. reflexivity.
      - left. split; [reflexivity|]. unfold unwind. cbn. rewrite results_app. cbn. rewrite results_app, drop_quiet. cbn. rewrite app_nil_r, Hsf. exact Hr1.
    Qed.

    (* histories *)
    Variable n : nat.
    Definition WinOK (rs: list out) : Prop := forall k, k < length rs -> k mod n = fi -> prov (nth k rs ONone) = Some fi.
    Definition InvF (w: world) : Prop :=
      WinOK (results (tr w)) /\
      (dropped w = false -> finished w = false -> N w = n /\ GoodF w /\ Q (cs w) /\ off (cs w) = length (results (tr w)) mod n).

    Lemma do_fire_flags w j : dropped (do_fire w j) = dropped w /\ finished (do_fire w j) = finished w.
    Proof. unfold do_fire. destruct (j <? N w); auto. destruct (nth j (bits w) true); auto. Qed.
    Lemma fire_handle_flags w c k : dropped (fire_handle w c k) = dropped w /\ finished (fire_handle w c k) = finished w /\ cs (fire_handle w c k) = cs w.
    Proof.
      unfold fire_handle. destruct (nth_error (nth c (handed w) []) k) as [[slot|pid]|]; auto.
      destruct (do_fire_flags (emit w [EF c k]) slot) as [A B]. destruct (do_fire_pass (emit w [EF c k]) slot) as (C & _). rewrite A, B, C. auto.
    Qed.

    Lemma WinOK_snoc rs o : WinOK rs -> (length rs mod n = fi -> prov o = Some fi) -> WinOK (rs ++ [o]).
    Proof.
      intros H Ho k Hk Hm. rewrite app_length in Hk. cbn in Hk. destruct (Nat.eq_dec k (length rs)) as [->|Hne].
      - rewrite app_nth2, Nat.sub_diag by lia. cbn. auto.
      - rewrite app_nth1 by lia. apply H; auto. lia.
    Qed.

    Lemma InvF_poll w pid np : InvF w -> scf w <> [] -> dropped w = false -> finished w = false -> InvF (poll w pid np).
    Proof.
      intros [HW HL] Hne Ed Ef. destruct (HL Ed Ef) as (HN & HG & HQ & Hoff).
      destruct (poll_F w pid np HG HQ Hne Ed) as [[Hd' Hr']|(o' & Hr' & Hp' & Hd' & Hrest)].
      - split; [rewrite Hr'; exact HW|intros X; congruence].
      - split; [rewrite Hr'; apply WinOK_snoc; auto; intros Hm; apply Hp'; rewrite Hoff; exact Hm|].
        intros _ Hf'. destruct (Hrest Hf') as (G1 & G2 & G3 & G4 & _). rewrite HN in G3.
        split; [congruence|]. split; [exact G1|]. split; [exact G2|].
        assert (Hn0 : n <> 0) by (destruct HG as (_ & _ & X & _); lia).
        rewrite G3, Hr', app_length, Hoff. cbn [length]. rewrite Nat.add_mod_idemp_l by exact Hn0. reflexivity.
    Qed.

    Lemma InvF_step w o : InvF w -> scf w <> [] -> InvF (step_op w o).
    Proof.
      intros HI Hne. pose proof HI as [HW HL]. destruct o; cbn [step_op].
      - destruct (finished w || dropped w) eqn:E; [exact HI|]. apply orb_false_iff in E as [Ef Ed]. apply InvF_poll; auto.
      - destruct (finished w || dropped w) eqn:E; [exact HI|]. apply orb_false_iff in E as [Ef Ed]. apply InvF_poll; auto.
      - destruct (fire_handle_flags (emit w [EO]) c k) as (Fd & Ff & Fc).
        assert (Hres : results (tr (fire_handle (emit w [EO]) c k)) = results (tr w)).
        { rewrite fire_handle_res. cbn. rewrite results_app. cbn. apply app_nil_r. }
        split; [rewrite Hres; exact HW|]. rewrite Fd, Ff. cbn [dropped finished emit]. intros Ed Ef.
        destruct (HL Ed Ef) as (HN & HG & HQ & Hoff).
        destruct (fire_handle_F true (emit w [EO]) c k HG) as (A & B & C).
        rewrite Fc, Hres. unfold N in *. rewrite Fc. cbn [cs emit].
        split; [exact HN|]. split; [exact A|]. split; [exact HQ|exact Hoff].
      - destruct (dropped w); (split; [|intros X; discriminate]); cbn; rewrite results_app; cbn; rewrite ?drop_quiet; cbn; rewrite app_nil_r; exact HW.
      - destruct (dropped w); [exact HI|]. rewrite mut_id. exact HI.
    Qed.

    (* C17: if the always-ready input's script is never exhausted along the history, it wins every poll whose index is fi modulo n *)
    Theorem fair_run ops : forall w0, InvF w0 ->
      (forall ops1 ops2, ops = ops1 ++ ops2 -> ops2 <> [] -> scf (run_ops w0 ops1) <> []) -> InvF (run_ops w0 ops).
    Proof.
      induction ops as [|o ops IH] using rev_ind; intros w0 HI Hsc; [exact HI|].
      unfold run_ops. rewrite fold_left_app. cbn [fold_left]. apply InvF_step.
      - apply IH; auto. intros ops1 ops2 E Hne. apply (Hsc ops1 (ops2 ++ [o])); [rewrite E, app_assoc; reflexivity|destruct ops2; discriminate].
      - apply (Hsc ops [o]); [reflexivity|discriminate].
    Qed.
  End Fair.


  (* ------------- firing a waker is total (selective strategy): every sub-waker ever handed out names a slot that exists, and a parent
        waker has been registered by the time any handle exists - the two situations in which InlineWaker::wake would panic
        (index out of bounds in the readiness bit set; `expect("parent_waker not available")`) are unreachable ------------- *)
  Section FireTotal.
    Definition okh (n: nat) (h: wk) : Prop := match h with WSub s => s < n | WPar _ => True end.
    Definition FT (w: world) := Forall (Forall (okh (N w))) (handed w) /\ (parent w = None -> Forall (fun l => l = []) (handed w)).
    Hypothesis mutate_FT : forall w m a sc, Inv w -> FT w -> FT (mutate w m a sc).
    Lemma okh_mono n n' h : n <= n' -> okh n h -> okh n' h.
    Proof. destruct h; cbn; auto. intros; lia. Qed.
    Lemma FT_frame w w' : N w <= N w' -> handed w' = handed w -> (parent w' = None -> parent w = None) -> FT w -> FT w'.
    Proof.
      intros Hn Hh Hp [A B]. split; rewrite Hh; [|auto].
      eapply Forall_impl; [|exact A]. intros l Hl. eapply Forall_impl; [|exact Hl]. intros h. apply okh_mono. exact Hn.
    Qed.
    Lemma do_fire_X w j : cs (do_fire w j) = cs w /\ handed (do_fire w j) = handed w /\ parent (do_fire w j) = parent w.
    Proof. unfold do_fire. destruct (j <? N w); auto. destruct (nth j (bits w) true); auto. Qed.
    Lemma fire_handle_X w c k : cs (fire_handle w c k) = cs w /\ handed (fire_handle w c k) = handed w /\ parent (fire_handle w c k) = parent w.
    Proof.
      unfold fire_handle. destruct (nth_error (nth c (handed w) []) k) as [[slot|pid]|]; auto.
      destruct (do_fire_X (emit w [EF c k]) slot) as (A & B & C). auto.
    Qed.
    Lemma fires_of_X w me hs : cs (fires_of w me hs) = cs w /\ handed (fires_of w me hs) = handed w /\ parent (fires_of w me hs) = parent w.
    Proof.
      revert w. induction hs as [|h r IH]; intros w; cbn [fires_of]; auto.
      destruct (match h with HSelf => (me, length (nth me (handed w) []) - 1) | HOf c k => (c, k) end) as [c k].
      destruct (fire_handle_X w c k) as (A & B & C). destruct (IH (fire_handle w c k)) as (A' & B' & C'). repeat split; congruence.
    Qed.
    Lemma Forall_upd' {A} (P: A -> Prop) (l: list A) i x : Forall P l -> P x -> Forall P (upd l i x).
    Proof. revert i. induction l as [|a l IH]; intros [|i] Hl Hx; cbn; auto; inversion Hl; subst; constructor; auto. Qed.
    Lemma Forall_nth_d' {A} (P: A -> Prop) (l: list A) i d : Forall P l -> P d -> P (nth i l d).
    Proof. revert i. induction l as [|a l IH]; intros [|i] Hl Hd; cbn; auto; inversion Hl; subst; auto. Qed.

    (* inside a poll: a parent waker is registered, the number of slots does not change *)
    Definition FTp (n: nat) (w: world) := FT w /\ parent w <> None /\ N w = n.
    Definition vres_FT (n: nat) (r: vres) : Prop := match r with VCont w | VPending w | VReady w _ | VAbort w => FTp n w end.
    Lemma poll_child_FT n w i pid : sel w = true -> i < n -> FTp n w -> vres_FT n (poll_child w i pid).
    Proof.
      intros Hs Hi ([A B] & Hp & Hn). unfold poll_child. rewrite Hs. destruct (pop w (member (cs w) i)) as [stp sc'].
      match goal with |- context[fires_of ?W _ _] => set (w1 := W) end.
      assert (H1 : FTp n w1).
      { unfold FTp, FT, w1, N. cbn. fold (N w). split; [split|split; [exact Hp|exact Hn]].
        - apply Forall_upd'; auto. apply Forall_app. split; [apply Forall_nth_d'; auto|]. constructor; [cbn; lia|constructor].
        - intros E. contradiction. }
      destruct (fires_of_X w1 (member (cs w) i) (fires stp)) as (X1 & X2 & X3).
      set (w2 := fires_of w1 (member (cs w) i) (fires stp)) in *.
      assert (H2 : FTp n w2).
      { destruct H1 as (F1 & P1 & N1). split; [|split; [rewrite X3; exact P1|unfold N; rewrite X1; exact N1]].
        apply (FT_frame w1); auto; [unfold N; rewrite X1; lia|rewrite X3; auto]. }
      pose proof (handle_slots (cs w2) i (answer stp)) as Hsl.
      destruct (handle (cs w2) i (answer stp)) as [[s' a] eh]. cbn [fst] in Hsl.
      destruct H2 as (F2 & P2 & N2).
      assert (H3 : forall w', cs w' = s' -> handed w' = handed w2 -> parent w' = parent w2 -> FTp n w').
      { intros w' E1 E2 E3. split; [|split; [rewrite E3; exact P2|unfold N; rewrite E1, Hsl; exact N2]].
        apply (FT_frame w2); auto; [unfold N; rewrite E1, Hsl; lia|rewrite E3; auto]. }
      destruct a as [|r o|]; cbn [vres_FT].
      - apply H3; reflexivity.
      - apply H3; unfold apply_rearm; cbn [sel set_cs emit]; destruct (sel w2); try reflexivity; destruct r; reflexivity.
      - split; [|split; [exact P2|exact N2]]. apply (FT_frame w2); auto.
    Qed.
    Lemma clear_bit_X w i : cs (fst (clear_bit w i)) = cs w /\ handed (fst (clear_bit w i)) = handed w /\ parent (fst (clear_bit w i)) = parent w /\ sel (fst (clear_bit w i)) = sel w.
    Proof. unfold clear_bit. destruct (sel w) eqn:Es; [destruct (nth i (bits w) false)|]; cbn; rewrite ?Es; repeat split; reflexivity. Qed.
    Lemma FTp_clear n w i : FTp n w -> FTp n (fst (clear_bit w i)).
    Proof.
      intros (F & P & Hn). destruct (clear_bit_X w i) as (A & B & C & D).
      split; [|split; [rewrite C; exact P|unfold N; rewrite A; exact Hn]]. apply (FT_frame w); auto; [unfold N; rewrite A; lia|rewrite C; auto].
    Qed.
    Lemma visit_FT n w i pid : sel w = true -> i < n -> FTp n w -> vres_FT n (visit w i pid) /\
      match visit w i pid with VCont w' | VPending w' | VReady w' _ | VAbort w' => sel w' = true end.
    Proof.
      intros Hs Hi H. unfold visit. destruct (any_per_iter && negb (any_ready w)); [split; [exact H|exact Hs]|].
      pose proof (FTp_clear n w i H) as Hc. destruct (clear_bit_X w i) as (_ & _ & _ & Hsel). rewrite Hs in Hsel.
      assert (Hpc : forall w1, sel w1 = true -> FTp n w1 -> vres_FT n (poll_child w1 i pid) /\
                match poll_child w1 i pid with VCont w' | VPending w' | VReady w' _ | VAbort w' => sel w' = true end).
      { intros w1 Hs1 H1. split; [apply poll_child_FT; auto|]. unfold poll_child. rewrite Hs1.
        destruct (pop w1 (member (cs w1) i)) as [stp sc'].
        match goal with |- context[fires_of ?W _ _] => set (wa := W) end.
        assert (Ha : sel wa = true) by exact Hs1.
        assert (Hb : sel (fires_of wa (member (cs w1) i) (fires stp)) = true) by (rewrite (proj1 (fires_of_H wa (member (cs w1) i) (fires stp))); exact Ha).
        destruct (handle _ i (answer stp)) as [[s' a] eh]. destruct a as [|r o|]; auto.
        unfold apply_rearm. cbn [sel set_cs emit]. rewrite Hb. destruct r; exact Hb. }
      destruct clear_first.
      - destruct (clear_bit w i) as [w1 was] eqn:Ec. cbn [fst] in Hc, Hsel. destruct was; [|split; [exact H|exact Hs]].
        destruct (awaited (cs w) i); [apply Hpc; auto|split; [exact Hc|exact Hsel]].
      - destruct (awaited (cs w) i); [|split; [exact H|exact Hs]].
        destruct (clear_bit w i) as [w1 was] eqn:Ec. cbn [fst] in Hc, Hsel. destruct was; [apply Hpc; auto|split; [exact H|exact Hs]].
    Qed.
    Lemma scan_FT n is : forall w pid, sel w = true -> Forall (fun i => i < n) is -> FTp n w -> vres_FT n (scan w is pid).
    Proof.
      induction is as [|i rest IH]; intros w pid Hs Hb H; cbn [scan]; [exact H|]. inversion Hb; subst.
      destruct (visit_FT n w i pid Hs H2 H) as [Hv Hs']. destruct (visit w i pid); cbn [vres_FT] in Hv; auto.
    Qed.
    Lemma FT_poll w pid np : Inv w -> FT w -> FT (poll w pid np).
    Proof.
      intros HI H. pose proof HI as ((Hwf & HQ & _) & _). unfold poll.
      assert (Hmf : forall w' o, FT w' -> FT (mark_final w' o)) by (intros w' o X; unfold mark_final; destruct (final o); exact X).
      destruct (pre_exit (cs w)); [apply Hmf; exact H|].
      set (w0 := begin_poll w pid np).
      assert (H0 : FTp (N w) w0) by (split; [split; [exact (proj1 H)|cbn; discriminate]|split; [cbn; discriminate|reflexivity]]).
      destruct (pre_any (cs w0) && negb (any_ready w0)); [exact (proj1 H0)|].
      destruct (order (cs w0)) as [[is s1]|] eqn:Eo; [|exact (proj1 H0)].
      assert (H0' : FTp (N w) (set_cs w0 s1)).
      { destruct H0 as (F & P & Hn). pose proof (order_slots _ _ _ Eo) as Es.
        split; [|split; [exact P|unfold N; cbn [cs set_cs]; rewrite Es; exact Hn]].
        apply (FT_frame w0); auto. unfold N; cbn [cs set_cs]. rewrite Es. lia. }
      assert (Hb : Forall (fun i => i < N w) is).
      { apply Forall_forall. intros i Hi. exact (order_bound _ _ _ HQ Eo i Hi). }
      pose proof (scan_FT (N w) is (set_cs w0 s1) pid (wf_sel _ Hwf) Hb H0') as Hs.
      destruct (scan (set_cs w0 s1) is pid) as [w1|w1|w1 o|w1]; cbn [vres_FT] in Hs; destruct Hs as (F1 & P1 & N1).
      - pose proof (finish_slots (cs w1)) as Ef. destruct (finish (cs w1)) as [s2 [x|]]; cbn [fst] in Ef; [apply Hmf|];
          (apply (FT_frame w1); auto; unfold N; cbn; rewrite Ef; lia).
      - exact F1.
      - apply Hmf. apply (FT_frame w1); auto. unfold N; cbn. rewrite after_slots. lia.
      - exact F1.
    Qed.
    Lemma FT_run ops : forall w, Inv w -> FT w -> FT (run_ops w ops).
    Proof.
      induction ops as [|o r IH]; intros w HI H; cbn; auto. apply IH; [apply Inv_step; exact HI|]. destruct o; cbn [step_op].
      - destruct (finished w || dropped w); auto. apply FT_poll; auto.
      - destruct (finished w || dropped w); auto. apply FT_poll; auto.
      - destruct (fire_handle_X (emit w [EO]) c k) as (A & B & C). apply (FT_frame w); auto; [unfold N; rewrite A; cbn; lia|rewrite C; auto].
      - destruct (dropped w); exact H.
      - destruct (dropped w); auto.
    Qed.
    (* the code's InlineWaker::wake on the handle member c got at its k-th poll: would it panic? *)
    Definition fire_panics (w: world) (c k: nat) : bool :=
      match nth_error (nth c (handed w) []) k with
      | Some (WSub slot) => negb (slot <? N w) || match parent w with Some _ => false | None => true end
      | _ => false
      end.
    Theorem fire_total w0 ops c k : Inv w0 -> FT w0 -> fire_panics (run_ops w0 ops) c k = false.
    Proof.
      intros HI H0. destruct (FT_run ops w0 HI H0) as [A B]. set (w := run_ops w0 ops) in *. unfold fire_panics.
      destruct (nth_error (nth c (handed w) []) k) as [[slot|pid]|] eqn:E; auto.
      assert (Hin : In (WSub slot) (nth c (handed w) [])) by (eapply nth_error_In; eauto).
      assert (Hc : Forall (okh (N w)) (nth c (handed w) [])) by (apply Forall_nth_d'; auto).
      rewrite Forall_forall in Hc. specialize (Hc _ Hin). cbn in Hc. apply Nat.ltb_lt in Hc. rewrite Hc. cbn.
      destruct (parent w) eqn:Ep; auto. specialize (B eq_refl).
      assert (Hn : nth c (handed w) [] = []) by (apply (Forall_nth_d' (fun l => l = [])); auto). rewrite Hn in Hin. contradiction.
    Qed.
    Lemma FT_grow w s' m : slots s' = N w + m -> FT w -> FT (w_grow w s' m).
    Proof. intros Es H. apply (FT_frame w); auto. unfold N at 2; cbn. lia. Qed.
    Lemma FT_vacate w s' k : slots s' = N w -> FT w -> FT (w_vacate w s' k).
    Proof. intros Es H. apply (FT_frame w); auto. unfold N at 2; cbn. lia. Qed.
    Lemma FT_occupy w s' k sc : slots s' = N w -> FT w -> FT (w_occupy w s' k sc).
    Proof.
      intros Es [A B]. split; cbn [handed parent w_occupy].
      - apply Forall_app. split; [|constructor; [constructor|constructor]]. unfold N at 1; cbn. rewrite Es. exact A.
      - intros E. apply Forall_app. split; [auto|constructor; [reflexivity|constructor]].
    Qed.
  End FireTotal.


  Definition Sig w i := aw w i = true /\ polled w i = true /\ fired w i = true.

  Theorem C01_generic w0 ops i : Inv w0 -> let w := run_ops w0 ops in
    g_retpend w = true -> i < N w -> Sig w i -> g_out w = true.
  Proof.
    intros HI w Hr Hi (Ha & Hp & Hf). destruct (Inv_run ops w0 HI) as ((_ & _ & H2 & _) & HB & _).
    apply (HB Hr i); auto.
  Qed.
  Theorem C01_quiescent w0 ops i : Inv w0 -> let w := run_ops w0 ops in
    g_retpend w = true -> g_quiet w = true -> g_out w = false -> i < N w -> aw w i = true ->
    polled w i = true /\ fired w i = false.
  Proof.
    intros HI w Hr Hq Ho Hi Ha. destruct (Inv_run ops w0 HI) as ((_ & _ & H2 & _) & HB & HA).
    specialize (HB Hr). specialize (HA Hr Hq). split; [apply HA; auto|].
    destruct (fired w i) eqn:Ef; auto.
    specialize (H2 i Hi Ha Ef). specialize (HB i Hi Ha H2 (HA i Hi Ha)). fold w in HB. congruence.
  Qed.
  Theorem C16_generic w0 ops : Inv w0 -> g_bad16 (run_ops w0 ops) = false.
  Proof. intros HI. destruct (Inv_run ops w0 HI) as ((_ & _ & _ & _ & _ & _ & Hb) & _). exact Hb. Qed.
  Theorem C20_generic w0 ops i : Inv w0 -> let w := run_ops w0 ops in
    g_retpend w = true -> g_quiet w = true -> i < N w -> aw w i = true -> polled w i = true.
  Proof. intros HI w Hr Hq Hi Ha. destruct (Inv_run ops w0 HI) as (_ & _ & HA). apply (HA Hr Hq); auto. Qed.

  (* ------------- sibling progress (C20, second sentence) -------------
     Selective strategy.  If, when a poll begins, child j is awaited and its readiness bit is set (it was woken after its last Pending, or has
     never been polled: I2 / I3), then in that very poll either j is polled, or the poll delivers a result before the scan reaches j, or it
     unwinds - whatever every other child answers, in particular a sibling that stays Pending for ever.  *)
  Section Progress.
    Definition subpolled (j: nat) (t: list ev) := exists m, In (EC m (WSub j)) t.
    Definition ext (w w': world) := exists u, tr w' = tr w ++ u.
    Definition keeps (j: nat) (w w': world) := sel w' = sel w /\ (nth j (bits w) false = true -> nth j (bits w') false = true) /\ ext w w'.
    Lemma ext_refl w : ext w w. Proof. exists []. rewrite app_nil_r. reflexivity. Qed.
    Lemma ext_trans a b c : ext a b -> ext b c -> ext a c.
    Proof. intros [u Hu] [v Hv]. exists (u ++ v). rewrite Hv, Hu, app_assoc. reflexivity. Qed.
    Lemma keeps_refl j w : keeps j w w. Proof. split; [reflexivity|]. split; [auto|apply ext_refl]. Qed.
    Lemma keeps_trans j a b c : keeps j a b -> keeps j b c -> keeps j a c.
    Proof. intros (A1 & A2 & A3) (B1 & B2 & B3). split; [congruence|]. split; [auto|eapply ext_trans; eauto]. Qed.
    Lemma keeps_emit j w es : keeps j w (emit w es).
    Proof. split; [reflexivity|]. split; [auto|]. exists es. reflexivity. Qed.

    Lemma do_fire_keeps j w x : keeps j w (do_fire w x) /\ cs (do_fire w x) = cs w.
    Proof.
      unfold do_fire. destruct (x <? N w); [|split; [apply keeps_refl|reflexivity]].
      destruct (nth x (bits w) true) eqn:Ex.
      - split; [|reflexivity]. split; [reflexivity|]. split; [auto|]. exists []. cbn. rewrite app_nil_r. reflexivity.
      - split; [|reflexivity]. split; [reflexivity|]. split.
        + cbn. intros Hj. destruct (Nat.eq_dec x j) as [->|Hne].
          * exfalso. assert (Hl : j < length (bits w)).
            { destruct (Nat.lt_ge_cases j (length (bits w))) as [L|G]; auto. rewrite nth_overflow in Hj by exact G. discriminate. }
            rewrite (nth_indep _ true false Hl) in Ex. congruence.
          * rewrite (nth_upd_other _ x j) by exact Hne. exact Hj.
        + eexists. cbn. reflexivity.
    Qed.
    Lemma fire_handle_keeps j w c k : keeps j w (fire_handle w c k) /\ cs (fire_handle w c k) = cs w.
    Proof.
      unfold fire_handle. destruct (nth_error (nth c (handed w) []) k) as [[slot|pid]|].
      - destruct (do_fire_keeps j (emit w [EF c k]) slot) as [A B]. split; [|rewrite B; reflexivity].
        eapply keeps_trans; [apply keeps_emit|exact A].
      - split; [apply keeps_emit|reflexivity].
      - split; [apply keeps_refl|reflexivity].
    Qed.
    Lemma fires_of_keeps j w me hs : keeps j w (fires_of w me hs) /\ cs (fires_of w me hs) = cs w.
    Proof.
      revert w. induction hs as [|h r IH]; intros w; cbn [fires_of]; [split; [apply keeps_refl|reflexivity]|].
      destruct (match h with HSelf => (me, length (nth me (handed w) []) - 1) | HOf c k => (c, k) end) as [c k].
      destruct (fire_handle_keeps j w c k) as [A B]. destruct (IH (fire_handle w c k)) as [A' B'].
      split; [eapply keeps_trans; eauto|congruence].
    Qed.

    Definition vworld (r: vres) : world := match r with VCont w | VPending w | VReady w _ | VAbort w => w end.

    (* one child poll: the trace gains this child's poll event; a sibling's bit and awaited status survive a `Cont` *)
    Lemma poll_child_progress w i pid : sel w = true ->
      (exists u, tr (vworld (poll_child w i pid)) = tr w ++ EC (member (cs w) i) (WSub i) :: u) /\
      (forall j w', j <> i -> poll_child w i pid = VCont w' ->
         sel w' = true /\ (nth j (bits w) false = true -> nth j (bits w') false = true) /\ aw w' j = aw w j).
    Proof.
      intros Hsel. unfold poll_child. rewrite Hsel.
      destruct (pop w (member (cs w) i)) as [stp sc'].
      match goal with |- context[fires_of ?W _ _] => set (w1 := W) end.
      assert (T1 : tr w1 = tr w ++ [EC (member (cs w) i) (WSub i)]) by reflexivity.
      assert (C1 : cs w1 = cs w) by reflexivity.
      assert (S1 : sel w1 = true) by exact Hsel.
      assert (B1 : bits w1 = bits w) by reflexivity.
      set (w2 := fires_of w1 (member (cs w) i) (fires stp)).
      destruct (handle (cs w2) i (answer stp)) as [[s' a] eh] eqn:Eh.
      split.
      - destruct (fires_of_keeps 0 w1 (member (cs w) i) (fires stp)) as [(_ & _ & [u Hu]) _]. fold w2 in Hu.
        destruct a as [|r o|]; cbn [vworld].
        + eexists. cbn. rewrite Hu, T1, <- !app_assoc. cbn. reflexivity.
        + unfold apply_rearm. eexists.
          destruct (sel (set_cs (emit w2 (EAns (answer stp) :: eh)) s')); [destruct r|]; cbn; rewrite Hu, T1, <- !app_assoc; cbn; reflexivity.
        + eexists. cbn. rewrite Hu, T1, <- !app_assoc. cbn. reflexivity.
      - intros j w' Hne E. destruct a as [|r o|]; try discriminate. inversion E; subst w'; clear E.
        destruct (fires_of_keeps j w1 (member (cs w) i) (fires stp)) as [(KS & KB & _) KC]. fold w2 in KS, KB, KC.
        cbn. split; [congruence|]. split; [rewrite <- B1; exact KB|].
        unfold aw. cbn. rewrite (handle_cont_other _ _ _ _ _ Eh j Hne). rewrite KC, C1. reflexivity.
    Qed.

    Lemma visit_ext w i pid : sel w = true -> ext w (vworld (visit w i pid)).
    Proof.
      intros Hsel. unfold visit. destruct (any_per_iter && negb (any_ready w)); [apply ext_refl|].
      unfold clear_bit. rewrite Hsel.
      assert (X : forall b, ext w (vworld (poll_child (set_bits w b) i pid))).
      { intros b. destruct (poll_child_progress (set_bits w b) i pid Hsel) as [[u Hu] _]. eexists. rewrite Hu. reflexivity. }
      assert (Y : forall b, ext w (set_bits w b)) by (intros b; exists []; cbn; rewrite app_nil_r; reflexivity).
      destruct clear_first.
      - destruct (nth i (bits w) false); [|apply ext_refl]. destruct (awaited (cs w) i); [apply X|apply Y].
      - destruct (awaited (cs w) i); [|apply ext_refl]. destruct (nth i (bits w) false); [apply X|apply ext_refl].
    Qed.
    Lemma visit_sel w i pid w' : sel w = true -> visit w i pid = VCont w' -> sel w' = true.
    Proof.
      intros Hsel. unfold visit. destruct (any_per_iter && negb (any_ready w)); [discriminate|].
      unfold clear_bit. rewrite Hsel.
      assert (X : forall b, poll_child (set_bits w b) i pid = VCont w' -> sel w' = true).
      { intros b E. unfold poll_child in E. destruct (pop (set_bits w b) (member (cs (set_bits w b)) i)) as [stp sc'].
        match type of E with context[fires_of ?W ?M ?F] => destruct (fires_of_keeps 0 W M F) as [(KS & _) _]; set (w2 := fires_of W M F) in * end.
        destruct (handle (cs w2) i (answer stp)) as [[s' a] eh]. destruct a; try discriminate. inversion E. cbn. rewrite KS. exact Hsel. }
      destruct clear_first.
      - destruct (nth i (bits w) false); [|intros E; inversion E; subst; exact Hsel].
        destruct (awaited (cs w) i); [apply X|intros E; inversion E; exact Hsel].
      - destruct (awaited (cs w) i); [|intros E; inversion E; subst; exact Hsel].
        destruct (nth i (bits w) false); [apply X|intros E; inversion E; subst; exact Hsel].
    Qed.
    Lemma scan_ext is : forall w pid, sel w = true -> ext w (vworld (scan w is pid)).
    Proof.
      induction is as [|i rest IH]; intros w pid Hsel; cbn [scan]; [apply ext_refl|].
      pose proof (visit_ext w i pid Hsel) as Hv. pose proof (visit_sel w i pid) as Hs.
      destruct (visit w i pid) as [w'|w'|w' o|w']; cbn [vworld] in *; auto.
      eapply ext_trans; [exact Hv|]. apply IH. apply Hs; auto.
    Qed.

    Lemma bit_any_ready w j : sel w = true -> nth j (bits w) false = true -> any_ready w = true.
    Proof.
      intros Hsel Hb. unfold any_ready. rewrite Hsel. apply existsb_exists. exists true. split; [|reflexivity].
      rewrite <- Hb. apply nth_In. destruct (Nat.lt_ge_cases j (length (bits w))) as [L|G]; auto. rewrite nth_overflow in Hb by exact G. discriminate.
    Qed.

    (* a visit of another slot leaves j signalled and awaited *)
    Lemma visit_other w i pid j w' : sel w = true -> j <> i -> visit w i pid = VCont w' ->
      (nth j (bits w) false = true -> nth j (bits w') false = true) /\ aw w' j = aw w j.
    Proof.
      intros Hsel Hne. unfold visit. destruct (any_per_iter && negb (any_ready w)); [discriminate|].
      unfold clear_bit. rewrite Hsel.
      assert (X : poll_child (set_bits w (upd (bits w) i false)) i pid = VCont w' ->
                  (nth j (bits w) false = true -> nth j (bits w') false = true) /\ aw w' j = aw w j).
      { intros E. destruct (poll_child_progress (set_bits w (upd (bits w) i false)) i pid Hsel) as [_ H].
        destruct (H j w' Hne E) as (_ & HB & HA). split; [|exact HA].
        intros Hb. apply HB. cbn. rewrite (nth_upd_other _ i j) by (intro; apply Hne; auto). exact Hb. }
      assert (Y : VCont (set_bits w (upd (bits w) i false)) = VCont w' ->
                  (nth j (bits w) false = true -> nth j (bits w') false = true) /\ aw w' j = aw w j).
      { intros E. inversion E; subst w'. cbn. split; [|reflexivity]. intros Hb. rewrite (nth_upd_other _ i j) by (intro; apply Hne; auto). exact Hb. }
      assert (Z : VCont w = VCont w' -> (nth j (bits w) false = true -> nth j (bits w') false = true) /\ aw w' j = aw w j).
      { intros E. inversion E; subst w'. auto. }
      destruct clear_first.
      - destruct (nth i (bits w) false); [|exact Z]. destruct (awaited (cs w) i); [exact X|exact Y].
      - destruct (awaited (cs w) i); [|exact Z]. destruct (nth i (bits w) false); [exact X|exact Z].
    Qed.

    Lemma scan_progress is : forall w pid j, sel w = true -> In j is -> aw w j = true -> nth j (bits w) false = true ->
      match scan w is pid with
      | VCont w' | VPending w' => exists u, tr w' = tr w ++ u /\ subpolled j u
      | _ => True
      end.
    Proof.
      induction is as [|i rest IH]; intros w pid j Hsel Hin Ha Hb; [destruct Hin|]. cbn [scan].
      destruct (Nat.eq_dec i j) as [->|Hne].
      - (* the scan has reached j: it is polled now *)
        assert (E : visit w j pid = poll_child (set_bits w (upd (bits w) j false)) j pid).
        { unfold visit. rewrite (bit_any_ready w j Hsel Hb), andb_false_r. unfold clear_bit. rewrite Hsel, Hb. unfold aw in Ha. rewrite Ha.
          destruct clear_first; reflexivity. }
        rewrite E. destruct (poll_child_progress (set_bits w (upd (bits w) j false)) j pid Hsel) as [[u Hu] _].
        pose proof (visit_sel w j pid) as Hs. rewrite E in Hs.
        destruct (poll_child (set_bits w (upd (bits w) j false)) j pid) as [w'|w'|w' o|w'] eqn:Ep; cbn [vworld] in Hu; auto.
        + destruct (scan_ext rest w' pid (Hs w' Hsel eq_refl)) as [v Hv].
          assert (P : subpolled j ((EC (member (cs (set_bits w (upd (bits w) j false))) j) (WSub j) :: u) ++ v)).
          { eexists. apply in_or_app. left. left. reflexivity. }
          destruct (scan w' rest pid) as [w2|w2|w2 o|w2]; cbn [vworld] in Hv; auto;
            (eexists; split; [rewrite Hv, Hu; cbn [tr set_bits]; rewrite <- app_assoc; reflexivity|exact P]).
        + eexists. split; [exact Hu|]. eexists. left. reflexivity.
      - destruct Hin as [->|Hin]; [congruence|].
        pose proof (visit_ext w i pid Hsel) as [u Hu]. pose proof (visit_sel w i pid) as Hs.
        pose proof (visit_other w i pid j) as Ho.
        destruct (visit w i pid) as [w'|w'|w' o|w'] eqn:Ev; cbn [vworld] in Hu; auto.
        + destruct (Ho w' Hsel (fun e => Hne (eq_sym e)) eq_refl) as [HB HA].
          specialize (IH w' pid j (Hs w' Hsel eq_refl) Hin (eq_trans HA Ha) (HB Hb)).
          destruct (scan w' rest pid) as [w2|w2|w2 o|w2]; auto;
            (destruct IH as (v & Hv & [m Hm]); exists (u ++ v); split; [rewrite Hv, Hu, app_assoc; reflexivity|exists m; apply in_or_app; right; exact Hm]).
        + (* the "nothing is ready any more" exit is not taken while j is signalled *)
          exfalso. unfold visit in Ev. rewrite (bit_any_ready w j Hsel Hb), andb_false_r in Ev.
          unfold clear_bit in Ev. rewrite Hsel in Ev.
          assert (X : forall b r, poll_child (set_bits w b) i pid = r -> r <> VPending w').
          { intros b r E. subst r. unfold poll_child. destruct (pop (set_bits w b) (member (cs (set_bits w b)) i)) as [stp sc'].
            match goal with |- context[handle ?S i ?A] => destruct (handle S i A) as [[s' a] eh] end. destruct a; discriminate. }
          destruct clear_first.
          * destruct (nth i (bits w) false); [|discriminate]. destruct (awaited (cs w) i); [eapply X; eauto|discriminate].
          * destruct (awaited (cs w) i); [|discriminate]. destruct (nth i (bits w) false); [eapply X; eauto|discriminate].
    Qed.

    Theorem poll_progress w pid np j : sel w = true -> Q (cs w) -> j < N w -> aw w j = true -> nth j (bits w) false = true ->
      exists u, tr (poll w pid np) = tr w ++ EB pid :: u /\ (subpolled j u \/ (exists o, In (EEndR o) u) \/ In EEndX u).
    Proof.
      intros Hsel HQ Hj Ha Hb. unfold poll.
      assert (Hmf : forall w' o, tr (mark_final w' o) = tr w') by (intros w' o; unfold mark_final; destruct (final o); reflexivity).
      destruct (pre_exit (cs w)) as [o|].
      { exists [EEndR o]. rewrite Hmf. cbn. split; [reflexivity|]. right. left. exists o. left. reflexivity. }
      set (w0 := begin_poll w pid np).
      assert (S0 : sel w0 = true) by exact Hsel.
      assert (B0 : nth j (bits w0) false = true) by exact Hb.
      rewrite (bit_any_ready w0 j S0 B0), andb_false_r.
      assert (T0 : tr w0 = tr w ++ [EB pid]) by reflexivity.
      destruct (order (cs w0)) as [[is s1]|] eqn:Eo.
      2:{ eexists. unfold unwind. cbn. rewrite <- app_assoc. cbn. split; [reflexivity|]. right. right.
          right. apply in_or_app. right. left. reflexivity. }
      assert (Hin : In j is) by (apply (order_cover (cs w0) is s1 HQ Eo j Hj Ha)).
      assert (Ha1 : aw (set_cs w0 s1) j = true) by (unfold aw; cbn; rewrite (order_aw _ _ _ Eo j); exact Ha).
      pose proof (scan_progress is (set_cs w0 s1) pid j S0 Hin Ha1 B0) as Hp.
      destruct (scan_ext is (set_cs w0 s1) pid S0) as [v Hv].
      destruct (scan (set_cs w0 s1) is pid) as [w1|w1|w1 o|w1]; cbn [vworld] in Hv.
      - destruct Hp as (u & Hu & Hsub). destruct (finish (cs w1)) as [s2 [x|]].
        + exists (u ++ [EEndR x]). rewrite Hmf. cbn. rewrite Hu. cbn. rewrite <- !app_assoc. cbn. split; [reflexivity|].
          left. destruct Hsub as [m Hm]. exists m. apply in_or_app. left. exact Hm.
        + exists (u ++ [EEndP]). cbn. rewrite Hu. cbn. rewrite <- !app_assoc. cbn. split; [reflexivity|].
          left. destruct Hsub as [m Hm]. exists m. apply in_or_app. left. exact Hm.
      - destruct Hp as (u & Hu & Hsub). exists (u ++ [EEndP]). cbn. rewrite Hu. cbn. rewrite <- !app_assoc. cbn. split; [reflexivity|].
        left. destruct Hsub as [m Hm]. exists m. apply in_or_app. left. exact Hm.
      - exists (v ++ [EEndR o]). rewrite Hmf. cbn. rewrite Hv. cbn. rewrite <- !app_assoc. cbn. split; [reflexivity|].
        right. left. exists o. apply in_or_app. right. left. reflexivity.
      - exists (v ++ ED :: drop_all (cs w1) ++ [EEndX]). unfold unwind. cbn. rewrite Hv. cbn. rewrite <- !app_assoc. cbn. split; [reflexivity|].
        right. right. apply in_or_app. right. right. apply in_or_app. right. left. reflexivity.
    Qed.

    (* over reachable states: a child that has signalled since its last poll (or has never been polled) is polled in the next poll *)
    Theorem sibling_progress w0 ops o j : Inv w0 -> (o = OPollFresh \/ o = OPollSame) -> let w := run_ops w0 ops in
      finished w = false -> dropped w = false -> j < N w -> aw w j = true -> (fired w j = true \/ polled w j = false) ->
      exists pid u, tr (step_op w o) = tr w ++ EB pid :: u /\ (subpolled j u \/ (exists r, In (EEndR r) u) \/ In EEndX u).
    Proof.
      intros HI Ho w Hf Hd Hj Ha Hs. destruct (Inv_run ops w0 HI) as ((Hwf & HQ & H2 & H3 & _) & _). fold w in Hwf, HQ, H2, H3.
      assert (Hb : nth j (bits w) false = true) by (destruct Hs as [Hs|Hs]; [apply (H2 j Hj Ha Hs)|apply (H3 j Hj Ha Hs)]).
      assert (X : forall pid np, exists pid' u, tr (poll w pid np) = tr w ++ EB pid' :: u /\ (subpolled j u \/ (exists r, In (EEndR r) u) \/ In EEndX u)).
      { intros pid np. exists pid. apply poll_progress; auto. apply Hwf. }
      destruct Ho as [-> | ->]; cbn [step_op]; rewrite Hf, Hd; cbn [orb]; apply X.
    Qed.
  End Progress.

  (* ------------- bounded progress (towards C01's "consequently ... resolves once its children have made the progress that permits it") -------------
     Fixed combinators (member = slot), selective strategy, children whose scripts never panic.  One poll: it does not unwind, no script grows, and
     if it returns Pending then every child that was awaited and signalled when the poll began has consumed one step of its script. *)
  Section Live.
    (* occ: the slot holds a member.  Fixed-arity instances: every slot, always, and member s i = i.  Groups: the occupied slab entries; a slot is
       vacated when its member completes or is removed and may later be occupied by another member. *)
    Variable occ : St -> nat -> bool.
    Hypothesis aw_occ : forall s k, Q s -> k < slots s -> awaited s k = true -> occ s k = true.
    Hypothesis member_inj : forall s i j, Q s -> i < slots s -> j < slots s -> occ s i = true -> occ s j = true -> member s i = member s j -> i = j.
    (* no step of a poll puts a member into a slot or moves one: a slot occupied afterwards was occupied before, by the same member *)
    (* nmem: the number of members there have ever been (fixed arity: the number of slots); scripts and handle lists are indexed by member *)
    Variable nmem : St -> nat.
    Hypothesis member_lt : forall s k, Q s -> k < slots s -> occ s k = true -> member s k < nmem s.
    Definition stable (s s': St) := nmem s' = nmem s /\ forall k, k < slots s -> occ s' k = true -> occ s k = true /\ member s' k = member s k.
    Hypothesis handle_stable : forall s i a, Q s -> awaited s i = true -> i < slots s -> stable s (fst (fst (handle s i a))).
    Hypothesis order_stable : forall s is s1, Q s -> order s = Some (is, s1) -> stable s s1.
    Hypothesis finish_stable : forall s, Q s -> stable s (fst (finish s)).
    Hypothesis after_stable : forall s, Q s -> stable s (after_stop s).
    Lemma stable_refl s : stable s s. Proof. split; [reflexivity|]. intros k _ H. auto. Qed.
    Lemma stable_trans s s' s'' : slots s' = slots s -> stable s s' -> stable s' s'' -> stable s s''.
    Proof. intros E [A0 A] [B0 B]. split; [congruence|]. intros k Hk H. destruct (B k ltac:(lia) H) as [B1 B2]. destruct (A k Hk B1) as [A1 A2]. split; [exact A1|congruence]. Qed.
    Hypothesis abort_panic : forall s i a s' e, handle s i a = (s', Abort, e) -> a = APanic.
    (* okans: the answers the children's scripts may contain (never a panic; an instance may exclude more, e.g. End from a future) *)
    Variable okans : ans -> Prop.
    Hypothesis okans_np : forall a, okans a -> a <> APanic.
    Hypothesis okans_pend : okans APend.
    (* TS: a state predicate that holds between operations as long as every poll so far returned Pending; US: its counterpart inside a scan *)
    Variable TS US : St -> Prop.
    Hypothesis US_cont : forall s i a s' e, okans a -> Q s -> i < slots s -> US s -> awaited s i = true -> handle s i a = (s', Cont, e) -> US s'.
    Hypothesis TS_order : forall s is s1, TS s -> order s = Some (is, s1) -> US s1.
    Hypothesis US_finish : forall s, Q s -> US s -> snd (finish s) = None -> TS (fst (finish s)).
    Hypothesis US_endp : any_per_iter = true -> forall s, US s -> TS s.
    Hypothesis TS_order_some : forall s, TS s -> order s <> None.

    Definition rem (w: world) (m: nat) := length (nth m (scripts w) []).
    Definition nopanic (sc: list (list step)) := forall m st, In st (nth m sc []) -> okans (answer st).
    Definition HT (w: world) := length (handed w) = nmem (cs w) /\ length (g_polled w) = N w /\
      forall c, c < N w -> occ (cs w) c = true ->
        (forall h, In h (nth (member (cs w) c) (handed w) []) -> h = WSub c) /\
        (polled w c = true -> nth (member (cs w) c) (handed w) [] <> []).
    Definition LiveI (w: world) := sel w = true /\ nopanic (scripts w) /\ HT w.

    Lemma do_fire_live w j : cs (do_fire w j) = cs w /\ sel (do_fire w j) = sel w /\ scripts (do_fire w j) = scripts w /\
      handed (do_fire w j) = handed w /\ g_polled (do_fire w j) = g_polled w /\ dropped (do_fire w j) = dropped w /\ finished (do_fire w j) = finished w.
    Proof. unfold do_fire. destruct (j <? N w); [|repeat split]. destruct (nth j (bits w) true); repeat split. Qed.
    Lemma fire_handle_live w c k : cs (fire_handle w c k) = cs w /\ sel (fire_handle w c k) = sel w /\ scripts (fire_handle w c k) = scripts w /\
      handed (fire_handle w c k) = handed w /\ g_polled (fire_handle w c k) = g_polled w /\ dropped (fire_handle w c k) = dropped w /\
      finished (fire_handle w c k) = finished w.
    Proof.
      unfold fire_handle. destruct (nth_error (nth c (handed w) []) k) as [[slot|pid]|]; [|repeat split|repeat split].
      destruct (do_fire_live (emit w [EF c k]) slot) as (A & B & C & D & E & F & G). rewrite A, B, C, D, E, F, G. repeat split.
    Qed.
    Lemma fires_of_live w me hs : cs (fires_of w me hs) = cs w /\ sel (fires_of w me hs) = sel w /\ scripts (fires_of w me hs) = scripts w /\
      handed (fires_of w me hs) = handed w /\ g_polled (fires_of w me hs) = g_polled w /\ dropped (fires_of w me hs) = dropped w /\
      finished (fires_of w me hs) = finished w.
    Proof.
      revert w. induction hs as [|h r IH]; intros w; cbn [fires_of]; [repeat split|].
      destruct (match h with HSelf => (me, length (nth me (handed w) []) - 1) | HOf c k => (c, k) end) as [c k].
      destruct (fire_handle_live w c k) as (A & B & C & D & E & F & G). destruct (IH (fire_handle w c k)) as (A' & B' & C' & D' & E' & F' & G').
      repeat split; congruence.
    Qed.
    Lemma LiveI_frame w w' : cs w' = cs w -> sel w' = sel w -> scripts w' = scripts w -> handed w' = handed w -> g_polled w' = g_polled w ->
      LiveI w -> LiveI w'.
    Proof.
      intros A B C D E (H1 & H2 & H3 & H4 & H5). unfold LiveI, HT, polled, N in *. rewrite A, B, C, D, E. repeat split; auto; apply H5; auto.
    Qed.

    Lemma pop_nopanic w m : nopanic (scripts w) -> okans (answer (fst (pop w m))) /\ nopanic (snd (pop w m)).
    Proof.
      intros Hn. unfold pop. destruct (nth m (scripts w) []) as [|x rest] eqn:E; cbn [fst snd]; [split; [exact okans_pend|exact Hn]|].
      split; [apply (Hn m); rewrite E; left; reflexivity|].
      intros k st Hin. destruct (Nat.eq_dec m k) as [->|Hne].
      - assert (Hl : k < length (scripts w)).
        { destruct (Nat.lt_ge_cases k (length (scripts w))) as [L|G]; auto. rewrite nth_overflow in E by exact G. discriminate. }
        rewrite nth_upd_same in Hin by exact Hl. apply (Hn k). rewrite E. right. exact Hin.
      - rewrite nth_upd_other in Hin by exact Hne. apply (Hn k). exact Hin.
    Qed.
    Lemma pop_rem w m : (forall k, k <> m -> length (nth k (snd (pop w m)) []) = rem w k) /\ length (nth m (snd (pop w m)) []) = rem w m - 1.
    Proof.
      unfold pop, rem. destruct (nth m (scripts w) []) as [|x rest] eqn:E; cbn [snd]; [split; [auto|rewrite E; reflexivity]|].
      assert (Hl : m < length (scripts w)).
      { destruct (Nat.lt_ge_cases m (length (scripts w))) as [L|G]; auto. rewrite nth_overflow in E by exact G. discriminate. }
      split; [intros k Hk; rewrite nth_upd_other by auto; reflexivity|]. rewrite nth_upd_same by exact Hl. cbn. lia.
    Qed.

    Definition awmono (w: world) (r: vres) : Prop :=
      match r with VCont w' | VPending w' => forall k, aw w' k = true -> aw w k = true | _ => True end.
    Definition usmono (w: world) (r: vres) : Prop :=
      US (cs w) -> match r with VCont w' => US (cs w') | VPending w' => any_per_iter = true /\ US (cs w') | _ => True end.
    Definition vlive (w: world) (i: nat) (r: vres) : Prop :=
      LiveI (vworld r) /\ N (vworld r) = N w /\ (forall k, k <> member (cs w) i -> rem (vworld r) k = rem w k) /\
      rem (vworld r) (member (cs w) i) = rem w (member (cs w) i) - 1 /\
      dropped (vworld r) = dropped w /\ finished (vworld r) = finished w /\ Q (cs (vworld r)) /\ awmono w r /\ usmono w r /\ (forall w', r <> VAbort w') /\
      stable (cs w) (cs (vworld r)).

    Lemma poll_child_live w i pid : LiveI w -> Q (cs w) -> i < N w -> aw w i = true -> vlive w i (poll_child w i pid).
    Proof.
      intros (Hsel & Hnp & HLn & HP & HH) HQ Hi Haw. unfold poll_child. rewrite Hsel.
      set (m := member (cs w) i).
      pose proof (pop_nopanic w m Hnp) as [Hans Hnp']. pose proof (pop_rem w m) as [Hro Hri].
      destruct (pop w m) as [stp sc'] eqn:Epop. cbn [fst snd] in *.
      match goal with |- context[fires_of ?W _ _] => set (w1 := W) end.
      destruct (fires_of_live w1 m (fires stp)) as (A & B & C & D & E & F & G).
      set (w2 := fires_of w1 m (fires stp)) in *.
      assert (C1 : cs w1 = cs w) by reflexivity.
      assert (Hocc : occ (cs w) i = true) by (apply aw_occ; auto).
      assert (Hm : m < length (handed w)) by (rewrite HLn; apply member_lt; auto).
      assert (L2 : sel w2 = true /\ nopanic (scripts w2) /\ HT w2).
      { split; [rewrite B; exact Hsel|]. split; [rewrite C; exact Hnp'|].
        unfold HT, polled, N. rewrite A, D, E, C1. cbn. rewrite !upd_length. split; [exact HLn|]. split; [exact HP|].
        intros c Hc Hoc. destruct (HH c Hc Hoc) as (H1 & H2). destruct (Nat.eq_dec i c) as [->|Hne].
        - fold m. rewrite !nth_upd_same by (unfold N in *; lia). split; [|intros _; destruct (nth m (handed w) []); discriminate].
          intros h Hin. apply in_app_or in Hin as [Hin|[<-|[]]]; auto.
        - assert (Hmm : member (cs w) c <> m) by (intros X; apply Hne; symmetry; apply (member_inj (cs w)); auto).
          rewrite (nth_upd_other _ _ _ _ _ (fun e => Hmm (eq_sym e))). rewrite (nth_upd_other _ _ _ _ _ Hne). split; auto. }
      pose proof (handle_slots (cs w2) i (answer stp)) as Hsl.
      assert (HQ2 : Q (fst (fst (handle (cs w2) i (answer stp))))).
      { apply Q_handle; rewrite A, C1; auto. }
      assert (Hst : stable (cs w) (fst (fst (handle (cs w2) i (answer stp))))) by (rewrite A, C1; apply handle_stable; auto).
      destruct (handle (cs w2) i (answer stp)) as [[s' a] eh] eqn:Eh. cbn [fst] in Hsl, HQ2, Hst.
      assert (Hfin : forall w3, cs w3 = s' -> sel w3 = sel w2 -> scripts w3 = scripts w2 -> handed w3 = handed w2 -> g_polled w3 = g_polled w2 ->
                dropped w3 = dropped w2 -> finished w3 = finished w2 ->
                LiveI w3 /\ N w3 = N w /\ (forall k, k <> m -> rem w3 k = rem w k) /\ rem w3 m = rem w m - 1 /\ dropped w3 = dropped w /\
                finished w3 = finished w /\ Q (cs w3) /\ stable (cs w) (cs w3)).
      { intros w3 E1 E2 E3 E4 E5 E6 E7. destruct L2 as (S2 & P2 & H2a & H2b & H2c). destruct Hst as [Hst0 Hst].
        split.
        - unfold LiveI, HT, polled, N in *. rewrite E1, E2, E3, E4, E5, Hsl. split; [exact S2|]. split; [exact P2|]. split; [rewrite Hst0, <- C1, <- A; exact H2a|]. split; [exact H2b|].
          intros c Hc Hoc. rewrite A, C1 in Hc. destruct (Hst c Hc Hoc) as [Ho Hmem]. rewrite Hmem. rewrite <- C1, <- A in Ho, Hc. rewrite <- (eq_trans A C1). apply H2c; auto.
        - split; [unfold N; rewrite E1, Hsl, A; reflexivity|]. unfold rem. rewrite E3, C.
          split; [exact Hro|]. split; [exact Hri|]. split; [rewrite E6, F; reflexivity|]. split; [rewrite E7, G; reflexivity|]. rewrite E1. split; [exact HQ2|split; [exact Hst0|exact Hst]]. }
      destruct a as [|r o|].
      - destruct (Hfin (set_cs (emit w2 (EAns (answer stp) :: eh)) s')) as (X1 & X2 & X3 & X4 & X5 & X6 & X7 & X8); try reflexivity.
        split; [exact X1|split; [exact X2|split; [exact X3|split; [exact X4|split; [exact X5|split; [exact X6|split; [exact X7|split; [|split; [|split; [intros w' X; discriminate|exact X8]]]]]]]]]].
        2:{ intros HU. cbn. apply (US_cont (cs w2) i (answer stp) s' eh); [exact Hans|rewrite A, C1; exact HQ|rewrite A, C1; exact Hi|rewrite A, C1; exact HU|rewrite A, C1; exact Haw|exact Eh]. }
        cbn [awmono]. intros k Hk. unfold aw in *. cbn in Hk. destruct (Nat.eq_dec k i) as [->|Hne]; [exact Haw|].
        rewrite (handle_cont_other _ _ _ _ _ Eh k Hne) in Hk. rewrite A, C1 in Hk. exact Hk.
      - unfold apply_rearm.
        assert (Y : forall w3, cs w3 = s' -> sel w3 = sel w2 -> scripts w3 = scripts w2 -> handed w3 = handed w2 -> g_polled w3 = g_polled w2 ->
                dropped w3 = dropped w2 -> finished w3 = finished w2 -> vlive w i (VReady w3 o)).
        { intros w3 E1 E2 E3 E4 E5 E6 E7. destruct (Hfin w3 E1 E2 E3 E4 E5 E6 E7) as (X1 & X2 & X3 & X4 & X5 & X6 & X7 & X8).
          split; [exact X1|split; [exact X2|split; [exact X3|split; [exact X4|split; [exact X5|split; [exact X6|split; [exact X7|split; [exact I|split; [intros _; exact I|split; [intros w' X; discriminate|exact X8]]]]]]]]]]. }
        destruct (sel (set_cs (emit w2 (EAns (answer stp) :: eh)) s')); [destruct r|]; apply Y; reflexivity.
      - exfalso. apply (okans_np _ Hans). eapply abort_panic. exact Eh.
    Qed.

    Definition vlive' (w: world) (r: vres) : Prop :=
      LiveI (vworld r) /\ N (vworld r) = N w /\ (forall k, rem (vworld r) k <= rem w k) /\ dropped (vworld r) = dropped w /\
      finished (vworld r) = finished w /\ Q (cs (vworld r)) /\ awmono w r /\ usmono w r /\ (forall w', r <> VAbort w') /\ stable (cs w) (cs (vworld r)).
    Lemma vlive_weaken w i r : vlive w i r -> vlive' w r.
    Proof.
      intros (A & B & C & D & E & F & G & H & U & J & S). split; [exact A|]. split; [exact B|]. split; [|split; [exact E|split; [exact F|split; [exact G|split; [exact H|split; [exact U|split; [exact J|exact S]]]]]]].
      intros k. destruct (Nat.eq_dec k (member (cs w) i)) as [->|Hne]; [rewrite D; lia|rewrite (C k Hne); lia].
    Qed.
    Lemma vlive'_refl w : LiveI w -> Q (cs w) -> vlive' w (VCont w).
    Proof.
      intros H HQ. split; [exact H|]. split; [reflexivity|]. split; [intros; cbn [vworld]; lia|]. split; [reflexivity|]. split; [reflexivity|].
      split; [exact HQ|]. split; [cbn; auto|]. split; [intros HU; exact HU|]. split; [intros w' X; discriminate|apply stable_refl].
    Qed.

    Lemma visit_live w i pid : LiveI w -> Q (cs w) -> i < N w ->
      vlive' w (visit w i pid) /\
      (nth i (bits w) false = true -> aw w i = true -> rem (vworld (visit w i pid)) (member (cs w) i) = rem w (member (cs w) i) - 1).
    Proof.
      intros HL HQ Hi. pose proof HL as (Hsel & _). unfold visit.
      destruct (any_per_iter && negb (any_ready w)) eqn:Eany.
      { split.
        - split; [exact HL|]. split; [reflexivity|]. split; [intros; cbn [vworld]; lia|]. split; [reflexivity|]. split; [reflexivity|].
          split; [exact HQ|]. split; [cbn; auto|]. split; [|split; [intros w' X; discriminate|apply stable_refl]].
          intros HU. apply andb_true_iff in Eany as [Eany _]. split; [exact Eany|exact HU].
        - intros Hb _. exfalso. rewrite (bit_any_ready w i Hsel Hb), andb_false_r in Eany. discriminate. }
      unfold clear_bit. rewrite Hsel.
      assert (HLb : forall b, LiveI (set_bits w b)) by (intros b; apply (LiveI_frame w); auto).
      assert (X : aw w i = true -> vlive' w (poll_child (set_bits w (upd (bits w) i false)) i pid) /\
                  rem (vworld (poll_child (set_bits w (upd (bits w) i false)) i pid)) (member (cs w) i) = rem w (member (cs w) i) - 1).
      { intros Ha. pose proof (poll_child_live (set_bits w (upd (bits w) i false)) i pid (HLb _) HQ Hi Ha) as H.
        split; [apply (vlive_weaken _ i) in H; exact H|]. destruct H as (_ & _ & _ & D & _). exact D. }
      assert (Y : forall b, vlive' w (VCont (set_bits w b))).
      { intros b. split; [apply HLb|]. split; [reflexivity|]. split; [intros; cbn [vworld]; unfold rem; cbn; lia|]. split; [reflexivity|]. split; [reflexivity|].
        split; [exact HQ|]. split; [cbn; auto|]. split; [intros HU; exact HU|]. split; [intros w' E; discriminate|apply stable_refl]. }
      destruct clear_first.
      - destruct (nth i (bits w) false) eqn:Eb.
        + destruct (awaited (cs w) i) eqn:Ea; [destruct (X Ea) as [X1 X2]; split; [exact X1|intros _ _; exact X2]|]. split; [apply Y|]. intros _ Ha. unfold aw in Ha. congruence.
        + split; [apply vlive'_refl; auto|]. intros; discriminate.
      - destruct (awaited (cs w) i) eqn:Ea.
        + destruct (nth i (bits w) false) eqn:Eb; [destruct (X Ea) as [X1 X2]; split; [exact X1|intros _ _; exact X2]|]. split; [apply vlive'_refl; auto|]. intros; discriminate.
        + split; [apply vlive'_refl; auto|]. intros _ Ha. unfold aw in Ha. congruence.
    Qed.

    Lemma scan_live is : forall w pid, LiveI w -> Q (cs w) -> (forall i, In i is -> i < N w) ->
      vlive' w (scan w is pid) /\
      match scan w is pid with
      | VCont w' | VPending w' => forall j, In j is -> aw w j = true -> nth j (bits w) false = true -> rem w' (member (cs w) j) <= rem w (member (cs w) j) - 1
      | _ => True
      end.
    Proof.
      induction is as [|i rest IH]; intros w pid HL HQ Hin; cbn [scan].
      { split; [apply vlive'_refl; auto|]. intros j []. }
      assert (Hi : i < N w) by (apply Hin; left; reflexivity).
      destruct (visit_live w i pid HL HQ Hi) as [(V1 & V2 & V3 & V4 & V4' & VQ & VM & VU & V5 & VS) Vp].
      pose proof HL as (Hsel & _).
      pose proof (visit_other w i pid) as Ho.
      destruct (visit w i pid) as [w'|w'|w' o|w'] eqn:Ev; cbn [vworld awmono] in *; unfold usmono in VU.
      - assert (Hin' : forall j, In j rest -> j < N w') by (intros j Hj; rewrite V2; apply Hin; right; exact Hj).
        destruct (IH w' pid V1 VQ Hin') as [(S1 & S2 & S3 & S4 & S4' & SQ & SM & SU & S5 & SS) Sp].
        assert (Hsl : slots (cs w') = slots (cs w)) by exact V2.
        split.
        + split; [exact S1|]. split; [congruence|]. split; [intros k; specialize (S3 k); specialize (V3 k); lia|]. split; [congruence|]. split; [congruence|].
          split; [exact SQ|]. split; [|split; [|split; [exact S5|eapply stable_trans; eauto]]].
          * destruct (scan w' rest pid) as [w2|w2|w2 o|w2]; cbn [awmono] in *; auto.
          * unfold usmono in *. intros HU. apply SU, VU, HU.
        + destruct (scan w' rest pid) as [w2|w2|w2 o|w2]; cbn [vworld] in *; auto;
            (intros j Hj Ha Hb; destruct (Nat.eq_dec i j) as [->|Hne];
             [specialize (Vp Hb Ha); specialize (S3 (member (cs w) j)); lia
             |destruct Hj as [->|Hj]; [congruence|];
              destruct (Ho j w' Hsel (fun e => Hne (eq_sym e)) eq_refl) as [HB HA];
              assert (Hjn : j < N w) by (apply Hin; right; exact Hj);
              assert (Hmem : member (cs w') j = member (cs w) j) by (apply (proj2 VS j Hjn); apply aw_occ; [exact VQ|fold (N w'); rewrite V2; exact Hjn|unfold aw in *; congruence]);
              specialize (Sp j Hj (eq_trans HA Ha) (HB Hb)); rewrite Hmem in Sp; specialize (V3 (member (cs w) j)); lia]).
      - split; [split; [exact V1|split; [exact V2|split; [exact V3|split; [exact V4|split; [exact V4'|split; [exact VQ|split; [exact VM|split; [exact VU|split; [exact V5|exact VS]]]]]]]]]|].
        intros j Hj Ha Hb. exfalso.
        unfold visit in Ev. rewrite (bit_any_ready w j Hsel Hb), andb_false_r in Ev. unfold clear_bit in Ev. rewrite Hsel in Ev.
        assert (X : forall b r, poll_child (set_bits w b) i pid = r -> r <> VPending w').
        { intros b r E. subst r. unfold poll_child. destruct (pop (set_bits w b) (member (cs (set_bits w b)) i)) as [stp sc'].
          match goal with |- context[handle ?S i ?A] => destruct (handle S i A) as [[s' a] eh] end. destruct a; discriminate. }
        destruct clear_first.
        + destruct (nth i (bits w) false); [|discriminate]. destruct (awaited (cs w) i); [eapply X; eauto|discriminate].
        + destruct (awaited (cs w) i); [|discriminate]. destruct (nth i (bits w) false); [eapply X; eauto|discriminate].
      - split; [split; [exact V1|split; [exact V2|split; [exact V3|split; [exact V4|split; [exact V4'|split; [exact VQ|split; [exact I|split; [exact VU|split; [exact V5|exact VS]]]]]]]]]|exact I].
      - exfalso. exact (V5 w' eq_refl).
    Qed.

    Lemma LiveI_cs w s' : slots s' = N w -> stable (cs w) s' -> LiveI w -> LiveI (set_cs w s').
    Proof.
      intros E [Hst0 Hst] (A & B & C0 & C & F). unfold LiveI, HT, polled, N in *. cbn. rewrite E. split; [exact A|]. split; [exact B|]. split; [congruence|]. split; [exact C|].
      intros c Hc Hoc. destruct (Hst c Hc Hoc) as [Ho Hm]. rewrite Hm. apply F; auto.
    Qed.

    Theorem poll_live w pid np : LiveI w -> Q (cs w) -> TS (cs w) ->
      let w' := poll w pid np in
      LiveI w' /\ N w' = N w /\ (forall k, rem w' k <= rem w k) /\ dropped w' = dropped w /\ stable (cs w) (cs w') /\
      (g_retpend w' = true -> TS (cs w') /\ finished w' = finished w /\ (forall k, aw w' k = true -> aw w k = true) /\
         forall j, j < N w -> aw w j = true -> nth j (bits w) false = true -> rem w' (member (cs w) j) <= rem w (member (cs w) j) - 1) /\
      (g_retpend w' = false -> (forall o, final o = true) -> finished w' = true /\ exists o, In (EEndR o) (tr w')).
    Proof.
      intros HL HQ HT. cbv zeta. unfold poll.
      assert (Hmf : forall w1 o, LiveI w1 -> LiveI (mark_final w1 o) /\ N (mark_final w1 o) = N w1 /\ (forall k, rem (mark_final w1 o) k = rem w1 k) /\
                 dropped (mark_final w1 o) = dropped w1 /\ g_retpend (mark_final w1 o) = g_retpend w1 /\ (final o = true -> finished (mark_final w1 o) = true) /\
                 tr (mark_final w1 o) = tr w1 /\ cs (mark_final w1 o) = cs w1).
      { intros w1 o H. unfold mark_final. destruct (final o); [|split; [exact H|repeat split; intros; discriminate]].
        split; [apply (LiveI_frame w1); auto|]. repeat split. }
      pose proof HL as (Hsel & _).
      destruct (pre_exit (cs w)) as [o|].
      { match goal with |- context[mark_final ?W o] => destruct (Hmf W o) as (M1 & M2 & M3 & M4 & M5 & M6 & M7 & M8) end.
        { apply (LiveI_frame w); auto. }
        split; [exact M1|]. split; [rewrite M2; reflexivity|]. split; [intros k; rewrite M3; cbn; unfold rem; cbn; lia|].
        split; [rewrite M4; reflexivity|]. split; [rewrite M8; cbn; apply stable_refl|]. rewrite M5. cbn. split; [intros; discriminate|]. intros _ Hf. split; [apply M6, Hf|].
        exists o. rewrite M7. cbn. apply in_or_app. right. right. left. reflexivity. }
      set (w0 := begin_poll w pid np).
      assert (HL0 : LiveI w0) by (apply (LiveI_frame w); auto).
      destruct (pre_any (cs w0) && negb (any_ready w0)) eqn:Epa.
      { split; [apply (LiveI_frame w0); auto|]. split; [reflexivity|]. split; [intros; unfold rem; cbn; lia|]. split; [reflexivity|]. split; [cbn; apply stable_refl|].
        split; [|cbn; intros; discriminate]. intros _. split; [exact HT|]. split; [reflexivity|]. split; [auto|].
        intros j Hj Ha Hb. exfalso. assert (B0 : nth j (bits w0) false = true) by exact Hb.
        rewrite (bit_any_ready w0 j Hsel B0), andb_false_r in Epa. discriminate. }
      destruct (order (cs w0)) as [[is s1]|] eqn:Eo; [|exfalso; exact (TS_order_some (cs w0) HT Eo)].
      assert (HS1 : stable (cs w) s1) by (apply (order_stable (cs w0) is s1 HQ Eo)).
      assert (Hs1 : slots s1 = slots (cs w)) by (apply (order_slots _ _ _ Eo)).
      assert (HU1 : US (cs (set_cs w0 s1))) by (cbn; eapply TS_order; eauto).
      assert (HL1 : LiveI (set_cs w0 s1)) by (apply LiveI_cs; [exact Hs1|exact HS1|exact HL0]).
      assert (HQ1 : Q (cs (set_cs w0 s1))) by (cbn; eapply Q_order; eauto).
      assert (Hin : forall i, In i is -> i < N (set_cs w0 s1)).
      { intros i Hi. unfold N; cbn. rewrite (order_slots (cs w0) is s1 Eo). apply (order_bound (cs w0) is s1 HQ Eo i Hi). }
      destruct (scan_live is (set_cs w0 s1) pid HL1 HQ1 Hin) as [(S1 & S2 & S3 & S4 & S4' & SQ & SM & SU & S5 & SS) Sp]. specialize (SU HU1).
      assert (N1 : N (set_cs w0 s1) = N w) by (unfold N; cbn; apply (order_slots _ _ _ Eo)).
      assert (D1 : dropped (set_cs w0 s1) = dropped w) by reflexivity.
      assert (F1 : finished (set_cs w0 s1) = finished w) by reflexivity.
      assert (R1 : forall k, rem (set_cs w0 s1) k = rem w k) by reflexivity.
      assert (A1 : forall k, aw (set_cs w0 s1) k = aw w k) by (intros k; unfold aw; cbn; apply (order_aw _ _ _ Eo)).
      assert (Hcov : forall j, j < N w -> aw w j = true -> In j is /\ aw (set_cs w0 s1) j = true /\ member s1 j = member (cs w) j).
      { intros j Hj Ha. split; [apply (order_cover (cs w0) is s1 HQ Eo j Hj Ha)|]. split; [rewrite A1; exact Ha|].
        apply (proj2 HS1 j Hj). apply aw_occ; [exact HQ1|rewrite Hs1; exact Hj|]. rewrite (order_aw _ _ _ Eo). exact Ha. }
      assert (SS' : forall w1, N w1 = N (set_cs w0 s1) -> stable (cs (set_cs w0 s1)) (cs w1) -> stable (cs w) (cs w1)).
      { intros w1 E X. eapply stable_trans; [exact Hs1|exact HS1|exact X]. }
      cbn [cs set_cs] in SS.
      destruct (scan (set_cs w0 s1) is pid) as [w1|w1|w1 o|w1]; cbn [vworld awmono] in *.
      - pose proof (finish_slots (cs w1)) as Fs. pose proof (finish_aw (cs w1)) as Fa. pose proof (US_finish (cs w1) SQ SU) as Fu.
        pose proof (finish_stable (cs w1) SQ) as Fst.
        assert (Hst2 : stable (cs w) (fst (finish (cs w1)))).
        { eapply stable_trans; [|eapply stable_trans; [exact Hs1|exact HS1|exact SS]|exact Fst]. unfold N in *. cbn in S2. congruence. }
        destruct (finish (cs w1)) as [s2 [x|]]; cbn [fst snd] in Fs, Fa, Fu, Fst, Hst2.
        + match goal with |- context[mark_final ?W x] => destruct (Hmf W x) as (M1 & M2 & M3 & M4 & M5 & M6 & M7 & M8) end.
          { apply (LiveI_frame (set_cs w1 s2)); auto. apply LiveI_cs; auto. }
          split; [exact M1|]. split; [rewrite M2; unfold N in *; cbn; congruence|].
          split; [intros k; rewrite M3; specialize (S3 k); unfold rem in *; cbn in *; lia|]. split; [rewrite M4; cbn; congruence|].
          split; [rewrite M8; cbn; exact Hst2|].
          rewrite M5. cbn. split; [intros; discriminate|]. intros _ Hf. split; [apply M6, Hf|].
          exists x. rewrite M7. cbn. apply in_or_app. right. left. reflexivity.
        + split; [apply (LiveI_frame (set_cs w1 s2)); auto; apply LiveI_cs; auto|]. split; [unfold N in *; cbn; congruence|].
          split; [intros k; specialize (S3 k); unfold rem in *; cbn in *; lia|]. split; [cbn; congruence|]. split; [cbn; exact Hst2|].
          split; [|cbn; intros; discriminate]. intros _. split; [cbn; apply Fu; reflexivity|]. split; [cbn; congruence|]. split.
          * intros k Hk. unfold aw in Hk. cbn in Hk. rewrite (Fa k SQ) in Hk. rewrite <- A1. apply SM. exact Hk.
          * intros j Hj Ha Hb. destruct (Hcov j Hj Ha) as (Hin' & Ha' & Hmem). specialize (Sp j Hin' Ha' Hb). cbn [cs set_cs] in Sp. rewrite Hmem in Sp. unfold rem in *; cbn in *. lia.
      - split; [apply (LiveI_frame w1); auto|]. split; [unfold N in *; cbn; congruence|].
        split; [intros k; specialize (S3 k); unfold rem in *; cbn in *; lia|]. split; [cbn; congruence|].
        split; [cbn; eapply stable_trans; [exact Hs1|exact HS1|exact SS]|].
        split; [|cbn; intros; discriminate]. intros _. split; [cbn; apply US_endp; apply SU|]. split; [cbn; congruence|]. split.
        * intros k Hk. rewrite <- A1. apply SM. exact Hk.
        * intros j Hj Ha Hb. destruct (Hcov j Hj Ha) as (Hin' & Ha' & Hmem). specialize (Sp j Hin' Ha' Hb). cbn [cs set_cs] in Sp. rewrite Hmem in Sp. unfold rem in *; cbn in *. lia.
      - assert (Hst2 : stable (cs w) (after_stop (cs w1))).
        { eapply stable_trans; [|eapply stable_trans; [exact Hs1|exact HS1|exact SS]|apply after_stable; exact SQ]. unfold N in *. cbn in S2. congruence. }
        match goal with |- context[mark_final ?W o] => destruct (Hmf W o) as (M1 & M2 & M3 & M4 & M5 & M6 & M7 & M8) end.
        { apply (LiveI_frame (set_cs w1 (after_stop (cs w1)))); auto. apply LiveI_cs; [apply after_slots|apply after_stable; exact SQ|exact S1]. }
        split; [exact M1|]. split; [rewrite M2; unfold N in *; cbn; rewrite after_slots; congruence|].
        split; [intros k; rewrite M3; specialize (S3 k); unfold rem in *; cbn in *; lia|]. split; [rewrite M4; cbn; congruence|].
        split; [rewrite M8; cbn; exact Hst2|].
        rewrite M5. cbn. split; [intros; discriminate|]. intros _ Hf. split; [apply M6, Hf|].
        exists o. rewrite M7. cbn. apply in_or_app. right. left. reflexivity.
      - exfalso. exact (S5 w1 eq_refl).
    Qed.
    (* ---- a wake-driven executor: fire the most recent waker of every child, then poll with the same task ---- *)
    (* a script that may be handed to the combinator by a mutation (groups: insert) *)
    Variable okscript : list step -> Prop.
    Hypothesis mutate_live : forall w m a sc, Inv w -> LiveI w -> okscript sc -> LiveI (mutate w m a sc).
    Definition latest (w: world) (m: nat) := length (nth m (handed w) []) - 1.
    Lemma fire_latest_bit w c : K w -> LiveI w -> c < N w -> occ (cs w) c = true -> polled w c = true ->
      nth c (bits (step_op w (OFire (member (cs w) c) (latest w (member (cs w) c))))) false = true.
    Proof.
      intros HK (Hsel & _ & _ & HP & HH) Hc Hoc Hp. destruct (HH c Hc Hoc) as (H1 & H2). specialize (H2 Hp).
      assert (Hlb : c < length (bits w)) by (destruct HK as ([_ Wb _ _ _] & _); unfold N in *; lia).
      cbn [step_op]. unfold fire_handle, latest. cbn [handed emit]. set (m := member (cs w) c) in *.
      destruct (nth m (handed w) []) as [|h0 l0] eqn:El; [contradiction|].
      assert (Hne : nth_error (h0 :: l0) (length (h0 :: l0) - 1) = Some (WSub c)).
      { assert (Hlt : length (h0 :: l0) - 1 < length (h0 :: l0)) by (cbn; lia).
        destruct (nth_error (h0 :: l0) (length (h0 :: l0) - 1)) as [x|] eqn:Ex; [|apply nth_error_None in Ex; lia].
        rewrite (H1 x (nth_error_In _ _ Ex)). reflexivity. }
      rewrite Hne.
      match goal with |- context[do_fire ?W c] => set (wx := W) end.
      assert (Nx : N wx = N w) by reflexivity. assert (Bx : bits wx = bits w) by reflexivity.
      unfold do_fire. rewrite Nx, Bx. destruct (Nat.ltb_spec c (N w)) as [_|X]; [|lia].
      destruct (nth c (bits w) true) eqn:Eb.
      - unfold fire_noop. cbn [bits]. rewrite Bx. rewrite (nth_indep _ true false Hlb) in Eb. exact Eb.
      - unfold fire_set. cbn [bits]. rewrite Bx. apply nth_upd_same. exact Hlb.
    Qed.
    Lemma fire_step_frame w c k : let w' := step_op w (OFire c k) in
      cs w' = cs w /\ sel w' = sel w /\ scripts w' = scripts w /\ handed w' = handed w /\ g_polled w' = g_polled w /\ dropped w' = dropped w /\
      finished w' = finished w /\ (forall j, nth j (bits w) false = true -> nth j (bits w') false = true) /\ ext w w'.
    Proof.
      cbv zeta. cbn [step_op]. destruct (fire_handle_live (emit w [EO]) c k) as (A & B & C & D & E & F & G).
      destruct (fire_handle_keeps 0 (emit w [EO]) c k) as [(_ & _ & X) _].
      repeat split; auto.
      - intros j Hj. destruct (fire_handle_keeps j (emit w [EO]) c k) as [(_ & KB & _) _]. apply KB. exact Hj.
      - eapply ext_trans; [|exact X]. exists [EO]. reflexivity.
    Qed.
    Definition fair_fires (w: world) (l: list nat) : list op := map (fun c => OFire (member (cs w) c) (latest w (member (cs w) c))) l.
    Lemma run_fires l : forall w0 w, Inv w -> LiveI w -> handed w = handed w0 -> cs w = cs w0 ->
      let w' := run_ops w (fair_fires w0 l) in
      Inv w' /\ LiveI w' /\ cs w' = cs w /\ scripts w' = scripts w /\ handed w' = handed w /\ g_polled w' = g_polled w /\ dropped w' = dropped w /\
      finished w' = finished w /\ (forall j, nth j (bits w) false = true -> nth j (bits w') false = true) /\
      (forall c, In c l -> c < N w -> occ (cs w) c = true -> polled w c = true -> nth c (bits w') false = true) /\ ext w w'.
    Proof.
      induction l as [|c l IH]; intros w0 w HI HL Hh Hc0; cbv zeta; unfold run_ops, fair_fires; cbn [map fold_left].
      { split; [exact HI|]. split; [exact HL|]. repeat split; auto. apply ext_refl. }
      set (w1 := step_op w (OFire (member (cs w0) c) (latest w0 (member (cs w0) c)))).
      destruct (fire_step_frame w (member (cs w0) c) (latest w0 (member (cs w0) c))) as (A & B & C & D & E & F & G & M & X). fold w1 in A, B, C, D, E, F, G, M, X.
      assert (HI1 : Inv w1) by (apply Inv_step; exact HI).
      assert (HL1 : LiveI w1) by (apply (LiveI_frame w); auto).
      destruct (IH w0 w1 HI1 HL1 (eq_trans D Hh) (eq_trans A Hc0)) as (I2 & L2 & C2 & S2 & H2 & P2 & D2 & F2 & M2 & B2 & X2).
      unfold run_ops, fair_fires in *.
      split; [exact I2|]. split; [exact L2|]. split; [congruence|]. split; [congruence|]. split; [congruence|]. split; [congruence|].
      split; [congruence|]. split; [congruence|]. split; [intros j Hj; apply M2, M, Hj|]. split; [|eapply ext_trans; eauto].
      intros c' [<-|Hin] Hc Hoc Hp.
      - apply M2. unfold w1. assert (E0 : latest w0 (member (cs w0) c) = latest w (member (cs w) c)) by (unfold latest; rewrite Hh, Hc0; reflexivity). rewrite E0, <- Hc0.
        apply fire_latest_bit; auto. apply HI.
      - apply B2; auto; [unfold N in *; rewrite A; exact Hc|rewrite A; exact Hoc|unfold polled in *; rewrite E; exact Hp].
    Qed.

    Definition round (w: world) : world := run_ops w (fair_fires w (seq 0 (N w)) ++ [OPollSame]).
    Theorem round_live w : Inv w -> LiveI w -> TS (cs w) -> finished w = false -> dropped w = false ->
      let w' := round w in
      Inv w' /\ LiveI w' /\ N w' = N w /\ (forall k, rem w' k <= rem w k) /\ dropped w' = false /\ stable (cs w) (cs w') /\
      (g_retpend w' = true -> TS (cs w') /\ finished w' = false /\ (forall k, aw w' k = true -> aw w k = true) /\
         forall j, j < N w -> aw w j = true -> rem w' (member (cs w) j) <= rem w (member (cs w) j) - 1) /\
      (g_retpend w' = false -> (forall o, final o = true) -> finished w' = true /\ exists o, In (EEndR o) (tr w')).
    Proof.
      intros HI HL HT Hf Hd. cbv zeta. unfold round, run_ops. rewrite fold_left_app. cbn [fold_left].
      destruct (run_fires (seq 0 (N w)) w w HI HL eq_refl eq_refl) as (I2 & L2 & C2 & S2 & H2 & P2 & D2 & F2 & M2 & B2 & X2).
      unfold run_ops in *. set (wf := fold_left step_op (fair_fires w (seq 0 (N w))) w) in *.
      cbn [step_op]. rewrite F2, D2, Hf, Hd. cbn [orb].
      assert (HTf : TS (cs wf)) by (rewrite C2; exact HT).
      assert (HQf : Q (cs wf)) by apply I2.
      match goal with |- context[poll wf ?a ?b] => destruct (poll_live wf a b L2 HQf HTf) as (A & B & C & D & St' & E & F); set (w' := poll wf a b) in * end.
      assert (Nf : N wf = N w) by (unfold N; rewrite C2; reflexivity).
      split; [apply Inv_poll; exact I2|]. split; [exact A|]. split; [congruence|].
      split; [intros k; specialize (C k); unfold rem in *; rewrite S2 in C; exact C|]. split; [congruence|]. split; [rewrite <- C2; exact St'|].
      split; [|exact F].
      intros Hr. destruct (E Hr) as (E0 & E1 & E2 & E3). split; [exact E0|]. split; [congruence|]. split.
      - intros k Hk. specialize (E2 k Hk). unfold aw in *. rewrite C2 in E2. exact E2.
      - intros j Hj Ha. assert (Hb : nth j (bits wf) false = true).
        { destruct (polled w j) eqn:Ep.
          - apply B2; auto; [apply in_seq; lia|apply aw_occ; [apply HI|exact Hj|exact Ha]].
          - apply M2. destruct HI as ((_ & _ & _ & H3 & _) & _). apply (H3 j Hj Ha Ep). }
        specialize (E3 j ltac:(lia) ltac:(unfold aw in *; rewrite C2; exact Ha) Hb). unfold rem in *. rewrite S2, C2 in E3. exact E3.
    Qed.
    Lemma round_finished w : Inv w -> LiveI w -> finished w = true ->
      let w' := round w in Inv w' /\ LiveI w' /\ N w' = N w /\ dropped w' = dropped w /\ finished w' = true /\ ext w w' /\ (forall k, rem w' k = rem w k).
    Proof.
      intros HI HL Hf. cbv zeta. unfold round, run_ops. rewrite fold_left_app. cbn [fold_left].
      destruct (run_fires (seq 0 (N w)) w w HI HL eq_refl eq_refl) as (I2 & L2 & C2 & S2 & H2 & P2 & D2 & F2 & M2 & B2 & X2).
      unfold run_ops in *. set (wf := fold_left step_op (fair_fires w (seq 0 (N w))) w) in *.
      cbn [step_op]. rewrite F2, Hf. cbn [orb].
      split; [exact I2|]. split; [exact L2|]. split; [unfold N; rewrite C2; reflexivity|]. split; [exact D2|]. split; [congruence|]. split; [exact X2|].
      intros k. unfold rem. rewrite S2. reflexivity.
    Qed.

    Fixpoint rounds (r: nat) (w: world) : world := match r with 0 => w | S r => rounds r (round w) end.
    Lemma rounds_S r w : rounds (S r) w = round (rounds r w).
    Proof. revert w. induction r as [|r IH]; intros w; [reflexivity|]. cbn [rounds] in *. rewrite IH. reflexivity. Qed.

    Lemma rounds_is_run r : forall w, exists ops, rounds r w = run_ops w ops.
    Proof.
      induction r as [|r IH]; intros w; [exists []; reflexivity|]. cbn [rounds]. destruct (IH (round w)) as [ops Hops].
      exists ((fair_fires w (seq 0 (N w)) ++ [OPollSame]) ++ ops). rewrite Hops. unfold round, run_ops. rewrite (fold_left_app step_op (fair_fires w (seq 0 (N w)) ++ [OPollSame]) ops w). reflexivity.
    Qed.
    Definition nomut (o: op) : Prop := match o with OPollFresh | OPollSame | OFire _ _ => True | _ => False end.
    Lemma rounds_is_run' r : forall w, exists ops, rounds r w = run_ops w ops /\ Forall nomut ops.
    Proof.
      induction r as [|r IH]; intros w; [exists []; split; [reflexivity|constructor]|]. cbn [rounds]. destruct (IH (round w)) as (ops & Hops & Hn).
      exists ((fair_fires w (seq 0 (N w)) ++ [OPollSame]) ++ ops). split.
      - rewrite Hops. unfold round, run_ops. rewrite (fold_left_app step_op (fair_fires w (seq 0 (N w)) ++ [OPollSame]) ops w). reflexivity.
      - apply Forall_app. split; [|exact Hn]. apply Forall_app. split; [|repeat constructor].
        unfold fair_fires. apply Forall_forall. intros o Ho. apply in_map_iff in Ho as (c & <- & _). exact I.
    Qed.
    Definition returned (w: world) := exists o, In (EEndR o) (tr w).
    (* after r rounds: the combinator has returned its final result, or every child it still waits for has consumed r steps of its script *)
    Theorem rounds_progress w0 : Inv w0 -> LiveI w0 -> TS (cs w0) -> dropped w0 = false -> finished w0 = false -> (forall o, final o = true) ->
      (forall r j, j < N w0 -> TS (cs (rounds r w0)) -> aw (rounds r w0) j = true -> 1 <= rem (rounds r w0) (member (cs (rounds r w0)) j)) ->
      forall r, let w := rounds r w0 in
      Inv w /\ LiveI w /\ N w = N w0 /\ dropped w = false /\
      ((finished w = true /\ returned w) \/
       (finished w = false /\ TS (cs w) /\ forall j, j < N w0 -> aw w j = true -> rem w (member (cs w) j) + r <= rem w0 (member (cs w) j))).
    Proof.
      intros HI HL HT Hd Hf Hfin Hpos r. induction r as [|r IH]; cbv zeta.
      { cbn [rounds]. split; [exact HI|]. split; [exact HL|]. split; [reflexivity|]. split; [exact Hd|]. right. split; [exact Hf|]. split; [exact HT|]. intros; lia. }
      rewrite rounds_S. cbv zeta in IH. destruct IH as (I1 & L1 & N1 & D1 & [[F1 R1]|(F1 & T1 & M1)]).
      - destruct (round_finished _ I1 L1 F1) as (A & B & C & D & E & X & _).
        split; [exact A|]. split; [exact B|]. split; [congruence|]. split; [congruence|]. left. split; [exact E|].
        destruct R1 as [o Ho]. destruct X as [u Hu]. exists o. rewrite Hu. apply in_or_app. left. exact Ho.
      - destruct (round_live _ I1 L1 T1 F1 D1) as (A & B & C & D & E & St' & F & G).
        split; [exact A|]. split; [exact B|]. split; [congruence|]. split; [exact E|].
        destruct (g_retpend (round (rounds r w0))) eqn:Er.
        + right. destruct (F eq_refl) as (F0 & F2 & F3 & F4). split; [exact F2|]. split; [exact F0|].
          intros j Hj Ha. specialize (F3 j Ha).
          assert (Hmem : member (cs (round (rounds r w0))) j = member (cs (rounds r w0)) j).
          { apply (proj2 St' j); [fold (N (rounds r w0)); lia|]. apply aw_occ; [apply A|fold (N (round (rounds r w0))); lia|exact Ha]. }
          rewrite Hmem. specialize (F4 j ltac:(lia) F3). specialize (M1 j Hj F3).
          pose proof (Hpos r j Hj T1 F3). lia.
        + left. apply (G eq_refl Hfin).
    Qed.

    (* so with scripts of length at most B and children that are awaited only while their script is not exhausted, B rounds suffice *)
    Theorem fair_executor_returns w0 B : Inv w0 -> LiveI w0 -> TS (cs w0) -> dropped w0 = false -> finished w0 = false -> (forall o, final o = true) ->
      (forall m, rem w0 m <= B) -> 1 <= B ->
      (forall r j, j < N w0 -> TS (cs (rounds r w0)) -> aw (rounds r w0) j = true -> 1 <= rem (rounds r w0) (member (cs (rounds r w0)) j)) ->
      (forall s, Q s -> TS s -> exists j, j < slots s /\ awaited s j = true) ->
      let w := rounds B w0 in finished w = true /\ returned w /\ dropped w = false.
    Proof.
      intros HI HL HT Hd Hf Hfin HB HB1 Hpos Hsome. cbv zeta.
      destruct (rounds_progress w0 HI HL HT Hd Hf Hfin Hpos B) as (IB & _ & NB & D & [[F R]|(F & TB & M)]); [auto|].
      exfalso. destruct (Hsome _ ltac:(apply IB) TB) as (j & Hj & Ha). fold (N (rounds B w0)) in Hj. rewrite NB in Hj. fold (aw (rounds B w0) j) in Ha. specialize (M j Hj Ha). specialize (Hpos B j Hj TB Ha). specialize (HB (member (cs (rounds B w0)) j)). lia.
    Qed.
    (* LiveI is an invariant of every history (no TS needed: a poll that finds no order unwinds, which changes neither scripts nor handles) *)
    Lemma poll_LiveI w pid np : LiveI w -> Q (cs w) -> LiveI (poll w pid np).
    Proof.
      intros HL HQ. unfold poll.
      assert (Hmf : forall w1 o, LiveI w1 -> LiveI (mark_final w1 o)).
      { intros w1 o H. unfold mark_final. destruct (final o); [apply (LiveI_frame w1); auto|exact H]. }
      destruct (pre_exit (cs w)) as [o|]; [apply Hmf; apply (LiveI_frame w); auto|].
      set (w0 := begin_poll w pid np).
      assert (HL0 : LiveI w0) by (apply (LiveI_frame w); auto).
      destruct (pre_any (cs w0) && negb (any_ready w0)); [apply (LiveI_frame w0); auto|].
      destruct (order (cs w0)) as [[is s1]|] eqn:Eo; [|unfold unwind; apply (LiveI_frame w0); auto].
      assert (HL1 : LiveI (set_cs w0 s1)) by (apply LiveI_cs; [apply (order_slots _ _ _ Eo)|apply (order_stable (cs w0) is s1 HQ Eo)|exact HL0]).
      assert (HQ1 : Q (cs (set_cs w0 s1))) by (cbn; eapply Q_order; eauto).
      assert (Hin : forall i, In i is -> i < N (set_cs w0 s1)).
      { intros i Hi. unfold N; cbn. rewrite (order_slots (cs w0) is s1 Eo). apply (order_bound (cs w0) is s1 HQ Eo i Hi). }
      destruct (scan_live is (set_cs w0 s1) pid HL1 HQ1 Hin) as [(S1 & S2 & _ & _ & _ & SQ & _ & _ & S5 & _) _].
      destruct (scan (set_cs w0 s1) is pid) as [w1|w1|w1 o|w1]; cbn [vworld] in *.
      - pose proof (finish_slots (cs w1)) as Fs. pose proof (finish_stable (cs w1) SQ) as Fst. destruct (finish (cs w1)) as [s2 [x|]]; cbn [fst] in Fs, Fst.
        + apply Hmf. apply (LiveI_frame (set_cs w1 s2)); auto. apply LiveI_cs; auto.
        + apply (LiveI_frame (set_cs w1 s2)); auto. apply LiveI_cs; auto.
      - apply (LiveI_frame w1); auto.
      - apply Hmf. apply (LiveI_frame (set_cs w1 (after_stop (cs w1)))); auto. apply LiveI_cs; [apply after_slots|apply after_stable; exact SQ|exact S1].
      - exfalso. exact (S5 w1 eq_refl).
    Qed.
    Definition okop (o: op) : Prop := match o with OMut _ _ sc => okscript sc | _ => True end.
    Lemma LiveI_step w o : Inv w -> LiveI w -> okop o -> LiveI (step_op w o).
    Proof.
      intros HI HL Hok. destruct o as [| |c k| |m a sc]; cbn [step_op].
      - destruct (finished w || dropped w); auto. apply poll_LiveI; auto. apply HI.
      - destruct (finished w || dropped w); auto. apply poll_LiveI; auto. apply HI.
      - destruct (fire_handle_live (emit w [EO]) c k) as (A & B & C & D & E & _). apply (LiveI_frame w); auto.
      - destruct (dropped w); apply (LiveI_frame w); auto.
      - destruct (dropped w); [exact HL|apply mutate_live; auto].
    Qed.
    Lemma LiveI_run ops : forall w, Inv w -> LiveI w -> Forall okop ops -> LiveI (run_ops w ops).
    Proof. induction ops as [|o r IH]; intros w HI HL Hok; cbn; auto. inversion Hok; subst. apply IH; [apply Inv_step; exact HI|apply LiveI_step; auto|assumption]. Qed.

    (* ---- streams as well: the next result (an item, or the end) arrives within B rounds ---- *)
    Lemma poll_result_ext w pid np : sel w = true -> dropped w = false -> let w' := poll w pid np in
      g_retpend w' = false -> dropped w' = false -> exists u o, tr w' = tr w ++ u ++ [EEndR o].
    Proof.
      intros Hsel Hd. cbv zeta. unfold poll.
      assert (Hmf : forall w1 o, tr (mark_final w1 o) = tr w1) by (intros w1 o; unfold mark_final; destruct (final o); reflexivity).
      destruct (pre_exit (cs w)) as [o|]; [intros _ _; exists [EB pid], o; rewrite Hmf; cbn; reflexivity|].
      set (w0 := begin_poll w pid np).
      destruct (pre_any (cs w0) && negb (any_ready w0)); [cbn; intros; discriminate|].
      destruct (order (cs w0)) as [[is s1]|]; [|unfold unwind; cbn; intros; discriminate].
      destruct (scan_ext is (set_cs w0 s1) pid Hsel) as [v Hv].
      destruct (scan (set_cs w0 s1) is pid) as [w1|w1|w1 o|w1]; cbn [vworld] in Hv.
      - destruct (finish (cs w1)) as [s2 [x|]]; [|cbn; intros; discriminate]. intros _ _. exists (EB pid :: v), x. rewrite Hmf. cbn. rewrite Hv. cbn.
        rewrite <- ?app_assoc. reflexivity.
      - cbn; intros; discriminate.
      - intros _ _. exists (EB pid :: v), o. rewrite Hmf. cbn. rewrite Hv. cbn. rewrite <- ?app_assoc. reflexivity.
      - unfold unwind; cbn; intros; discriminate.
    Qed.

    (* a combinator none of whose results is final (a stream that can be refilled: the groups) finishes only by unwinding, which also drops it *)
    Lemma poll_unfinished w pid np : LiveI w -> Q (cs w) -> (forall o, final o = false) -> dropped (poll w pid np) = false ->
      finished (poll w pid np) = finished w.
    Proof.
      intros HL HQ Hfin. unfold poll.
      assert (Hmf : forall w1 o, mark_final w1 o = w1) by (intros w1 o; unfold mark_final; rewrite Hfin; reflexivity).
      destruct (pre_exit (cs w)) as [o|]; [rewrite Hmf; reflexivity|].
      set (w0 := begin_poll w pid np).
      assert (HL0 : LiveI w0) by (apply (LiveI_frame w); auto).
      destruct (pre_any (cs w0) && negb (any_ready w0)); [reflexivity|].
      destruct (order (cs w0)) as [[is s1]|] eqn:Eo; [|unfold unwind; cbn; intros; discriminate].
      assert (HL1 : LiveI (set_cs w0 s1)) by (apply LiveI_cs; [apply (order_slots _ _ _ Eo)|apply (order_stable (cs w0) is s1 HQ Eo)|exact HL0]).
      assert (HQ1 : Q (cs (set_cs w0 s1))) by (cbn; eapply Q_order; eauto).
      assert (Hin : forall i, In i is -> i < N (set_cs w0 s1)).
      { intros i Hi. unfold N; cbn. rewrite (order_slots (cs w0) is s1 Eo). apply (order_bound (cs w0) is s1 HQ Eo i Hi). }
      destruct (scan_live is (set_cs w0 s1) pid HL1 HQ1 Hin) as [(_ & _ & _ & _ & S4 & _) _].
      destruct (scan (set_cs w0 s1) is pid) as [w1|w1|w1 o|w1]; cbn [vworld] in S4.
      - destruct (finish (cs w1)) as [s2 [x|]]; rewrite ?Hmf; cbn; intros _; exact S4.
      - cbn. intros _. exact S4.
      - rewrite Hmf. cbn. intros _. exact S4.
      - unfold unwind; cbn; intros; discriminate.
    Qed.
    Lemma round_unfinished w : Inv w -> LiveI w -> (forall o, final o = false) -> finished w = false -> dropped (round w) = false -> finished (round w) = false.
    Proof.
      intros HI HL Hfin Hf. unfold round, run_ops. rewrite fold_left_app. cbn [fold_left].
      destruct (run_fires (seq 0 (N w)) w w HI HL eq_refl eq_refl) as (I2 & L2 & C2 & S2 & H2 & P2 & D2 & F2 & M2 & B2 & X2).
      unfold run_ops in *. set (wf := fold_left step_op (fair_fires w (seq 0 (N w))) w) in *.
      cbn [step_op]. rewrite F2, Hf. cbn [orb]. destruct (dropped wf) eqn:Ed; [intros X; congruence|].
      intros Hd. rewrite (poll_unfinished wf _ _ L2 ltac:(apply I2) Hfin Hd). congruence.
    Qed.
    (* in general: a poll that has not unwound finishes the combinator only by returning a final result *)
    Lemma poll_finished_cases w pid np : LiveI w -> Q (cs w) -> dropped w = false -> dropped (poll w pid np) = false ->
      finished (poll w pid np) = finished w \/ exists u o, final o = true /\ tr (poll w pid np) = tr w ++ u ++ [EEndR o].
    Proof.
      intros HL HQ Hd0. pose proof HL as (Hsel & _).
      destruct (g_retpend (poll w pid np)) eqn:Er.
      - (* Pending: nothing is marked *)
        intros Hd. left. revert Er Hd. unfold poll.
        assert (Hmf : forall w1 o, g_retpend (mark_final w1 o) = g_retpend w1) by (intros w1 o; unfold mark_final; destruct (final o); reflexivity).
        destruct (pre_exit (cs w)) as [o|]; [rewrite Hmf; cbn; intros; discriminate|].
        set (w0 := begin_poll w pid np).
        assert (HL0 : LiveI w0) by (apply (LiveI_frame w); auto).
        destruct (pre_any (cs w0) && negb (any_ready w0)); [reflexivity|].
        destruct (order (cs w0)) as [[is s1]|] eqn:Eo; [|unfold unwind; cbn; intros; discriminate].
        assert (HL1 : LiveI (set_cs w0 s1)) by (apply LiveI_cs; [apply (order_slots _ _ _ Eo)|apply (order_stable (cs w0) is s1 HQ Eo)|exact HL0]).
        assert (HQ1 : Q (cs (set_cs w0 s1))) by (cbn; eapply Q_order; eauto).
        assert (Hin : forall i, In i is -> i < N (set_cs w0 s1)).
        { intros i Hi. unfold N; cbn. rewrite (order_slots (cs w0) is s1 Eo). apply (order_bound (cs w0) is s1 HQ Eo i Hi). }
        destruct (scan_live is (set_cs w0 s1) pid HL1 HQ1 Hin) as [(_ & _ & _ & _ & S4 & _) _].
        destruct (scan (set_cs w0 s1) is pid) as [w1|w1|w1 o|w1]; cbn [vworld] in S4.
        + destruct (finish (cs w1)) as [s2 [x|]]; rewrite ?Hmf; cbn; intros; [discriminate|exact S4].
        + cbn. intros _ _. exact S4.
        + rewrite Hmf. cbn. intros; discriminate.
        + unfold unwind; cbn; intros; discriminate.
      - intros Hd. destruct (poll_result_ext w pid np Hsel Hd0 Er Hd) as (u & o & Hu).
        destruct (final o) eqn:Ef; [right; exists u, o; split; [exact Ef|exact Hu]|]. left.
        (* the result was not final: mark_final left the flag alone *)
        revert Hu Hd. unfold poll.
        assert (Hmf : forall w1 o', tr (mark_final w1 o') = tr w1) by (intros w1 o'; unfold mark_final; destruct (final o'); reflexivity).
        assert (Hlast : forall (t: list ev) a b x y, t ++ a ++ [EEndR x] = t ++ b ++ [EEndR y] -> x = y).
        { intros t a b x y E. apply app_inv_head in E. assert (E' : last (a ++ [EEndR x]) EO = last (b ++ [EEndR y]) EO) by (rewrite E; reflexivity).
          rewrite !last_last in E'. inversion E'. reflexivity. }
        assert (Hmk : forall w1 o', tr w1 ++ [EEndR o'] = tr w ++ u ++ [EEndR o] -> finished (mark_final (set_ret (emit w1 [EEndR o']) false) o') = finished w1).
        { intros w1 o' E. assert (o' = o).
          { assert (E' : last (tr w1 ++ [EEndR o']) EO = last (tr w ++ u ++ [EEndR o]) EO) by (rewrite E; reflexivity).
            rewrite app_assoc, !last_last in E'. inversion E'. reflexivity. }
          subst o'. unfold mark_final. rewrite Ef. reflexivity. }
        destruct (pre_exit (cs w)) as [o'|].
        { rewrite Hmf. cbn [tr set_ret emit set_np]. intros E _.
          assert (o' = o).
          { assert (E' : last (tr w ++ [EB pid; EEndR o']) EO = last (tr w ++ u ++ [EEndR o]) EO) by (rewrite E; reflexivity).
            change [EB pid; EEndR o'] with ([EB pid] ++ [EEndR o']) in E'. rewrite !app_assoc, !last_last in E'. inversion E'. reflexivity. }
          subst o'. unfold mark_final. rewrite Ef. reflexivity. }
        set (w0 := begin_poll w pid np).
        assert (HL0 : LiveI w0) by (apply (LiveI_frame w); auto).
        destruct (pre_any (cs w0) && negb (any_ready w0)); [reflexivity|].
        destruct (order (cs w0)) as [[is s1]|] eqn:Eo; [|unfold unwind; cbn; intros; discriminate].
        assert (HL1 : LiveI (set_cs w0 s1)) by (apply LiveI_cs; [apply (order_slots _ _ _ Eo)|apply (order_stable (cs w0) is s1 HQ Eo)|exact HL0]).
        assert (HQ1 : Q (cs (set_cs w0 s1))) by (cbn; eapply Q_order; eauto).
        assert (Hin : forall i, In i is -> i < N (set_cs w0 s1)).
        { intros i Hi. unfold N; cbn. rewrite (order_slots (cs w0) is s1 Eo). apply (order_bound (cs w0) is s1 HQ Eo i Hi). }
        destruct (scan_live is (set_cs w0 s1) pid HL1 HQ1 Hin) as [(_ & _ & _ & _ & S4 & _) _].
        destruct (scan (set_cs w0 s1) is pid) as [w1|w1|w1 o'|w1]; cbn [vworld] in S4.
        + destruct (finish (cs w1)) as [s2 [x|]]; [|cbn; intros _ _; exact S4].
          rewrite Hmf. cbn [tr set_ret emit set_cs]. intros E _. rewrite (Hmk (set_cs w1 s2) x E). exact S4.
        + cbn. intros _ _. exact S4.
        + rewrite Hmf. cbn [tr set_ret emit set_cs]. intros E _. rewrite (Hmk (set_cs w1 (after_stop (cs w1))) o' E). exact S4.
        + unfold unwind; cbn; intros; discriminate.
    Qed.
    Lemma round_finished_cases w : Inv w -> LiveI w -> finished w = false -> dropped w = false -> dropped (round w) = false ->
      finished (round w) = false \/ exists u o, final o = true /\ tr (round w) = tr w ++ u ++ [EEndR o].
    Proof.
      intros HI HL Hf Hd0. unfold round, run_ops. rewrite fold_left_app. cbn [fold_left].
      destruct (run_fires (seq 0 (N w)) w w HI HL eq_refl eq_refl) as (I2 & L2 & C2 & S2 & H2 & P2 & D2 & F2 & M2 & B2 & [x Hx]).
      unfold run_ops in *. set (wf := fold_left step_op (fair_fires w (seq 0 (N w))) w) in *.
      cbn [step_op]. rewrite F2, D2, Hf, Hd0. cbn [orb]. intros Hd.
      match goal with |- context[poll wf ?a ?b] => destruct (poll_finished_cases wf a b L2 ltac:(apply I2) ltac:(congruence) Hd) as [E|(u & o & Ho & Hu)] end.
      - left. congruence.
      - right. exists (x ++ u), o. split; [exact Ho|]. rewrite Hu, Hx, <- !app_assoc. reflexivity.
    Qed.
    Lemma round_dropped w : dropped w = true -> dropped (round w) = true.
    Proof.
      intros Hd. unfold round, run_ops. rewrite fold_left_app. cbn [fold_left].
      assert (H : forall l w1, dropped w1 = true -> dropped (fold_left step_op (map (fun c => OFire (member (cs w) c) (latest w (member (cs w) c))) l) w1) = true).
      { induction l as [|c l IH]; intros w1 H1; [exact H1|]. cbn [map fold_left]. apply IH.
        destruct (fire_step_frame w1 (member (cs w) c) (latest w (member (cs w) c))) as (_ & _ & _ & _ & _ & F & _). rewrite F. exact H1. }
      specialize (H (seq 0 (N w)) w Hd). unfold fair_fires. cbn [step_op]. rewrite H, orb_true_r. exact H.
    Qed.
    Lemma rounds_add a : forall b w, rounds (a + b) w = rounds b (rounds a w).
    Proof. induction a as [|a IH]; intros b w; [reflexivity|]. cbn [Nat.add rounds]. apply IH. Qed.

    Theorem next_result w0 B : Inv w0 -> LiveI w0 -> TS (cs w0) -> dropped w0 = false -> finished w0 = false ->
      (forall m, rem w0 m <= B) -> 1 <= B ->
      (forall r j, j < N w0 -> TS (cs (rounds r w0)) -> aw (rounds r w0) j = true -> 1 <= rem (rounds r w0) (member (cs (rounds r w0)) j)) ->
      (forall s, Q s -> TS s -> exists j, j < slots s /\ awaited s j = true) ->
      exists r, r < B /\ dropped (rounds (S r) w0) = false /\ g_retpend (rounds (S r) w0) = false /\
                (forall r', r' <= r -> finished (rounds r' w0) = false) /\
                exists u o, tr (rounds (S r) w0) = tr (rounds r w0) ++ u ++ [EEndR o].
    Proof.
      intros HI HL HT Hd Hf HB HB1 Hpos Hsome.
      (* as long as every round so far returned Pending, the measure holds *)
      assert (Hm : forall r, (exists r0, r0 < r /\ dropped (rounds (S r0) w0) = false /\ g_retpend (rounds (S r0) w0) = false /\
                                (forall r', r' <= r0 -> finished (rounds r' w0) = false) /\
                                exists u o, tr (rounds (S r0) w0) = tr (rounds r0 w0) ++ u ++ [EEndR o]) \/
                   (Inv (rounds r w0) /\ LiveI (rounds r w0) /\ N (rounds r w0) = N w0 /\ dropped (rounds r w0) = false /\ TS (cs (rounds r w0)) /\
                    (forall r', r' <= r -> finished (rounds r' w0) = false) /\
                    forall j, j < N w0 -> aw (rounds r w0) j = true -> rem (rounds r w0) (member (cs (rounds r w0)) j) + r <= rem w0 (member (cs (rounds r w0)) j))).
      { induction r as [|r IH].
        - right. cbn [rounds]. split; [exact HI|]. split; [exact HL|]. split; [reflexivity|]. split; [exact Hd|]. split; [exact HT|].
          split; [intros r' Hr'; assert (r' = 0) by lia; subst; exact Hf|]. intros; lia.
        - destruct IH as [(r0 & Hr0 & X)|(I1 & L1 & N1 & D1 & T1 & F1 & M1)]; [left; exists r0; split; [lia|exact X]|].
          assert (Fr : finished (rounds r w0) = false) by (apply F1; lia).
          destruct (round_live _ I1 L1 T1 Fr D1) as (A & B' & C & D & E & St' & F & G). rewrite <- rounds_S in *.
          destruct (g_retpend (rounds (S r) w0)) eqn:Er.
          + right. destruct (F eq_refl) as (F0 & F2 & F3 & F4).
            split; [exact A|]. split; [exact B'|]. split; [congruence|]. split; [exact E|]. split; [exact F0|].
            split; [intros r' Hr'; destruct (Nat.eq_dec r' (S r)) as [->|Hne]; [exact F2|apply F1; lia]|].
            intros j Hj Ha. specialize (F3 j Ha).
            assert (Hmem : member (cs (rounds (S r) w0)) j = member (cs (rounds r w0)) j).
            { apply (proj2 St' j); [fold (N (rounds r w0)); lia|]. apply aw_occ; [apply A|fold (N (rounds (S r) w0)); lia|exact Ha]. }
            rewrite Hmem. specialize (F4 j ltac:(lia) F3). specialize (M1 j Hj F3). pose proof (Hpos r j Hj T1 F3). lia.
          + left. exists r. split; [lia|]. split; [exact E|]. split; [exact Er|]. split; [exact F1|].
            (* the poll of this round is the last operation of the round *)
            rewrite rounds_S in Er, E |- *. unfold round, run_ops in *. rewrite fold_left_app in *. cbn [fold_left] in *.
            destruct (run_fires (seq 0 (N (rounds r w0))) (rounds r w0) (rounds r w0) I1 L1 eq_refl eq_refl) as (I2 & L2 & C2 & S2 & H2 & P2 & D2 & F2 & M2 & B2 & [x Hx]).
            unfold run_ops in *. set (wf := fold_left step_op (fair_fires (rounds r w0) (seq 0 (N (rounds r w0)))) (rounds r w0)) in *.
            cbn [step_op] in *. rewrite F2, D2, Fr, D1 in *. cbn [orb] in *.
            match type of Er with g_retpend (poll wf ?a ?b) = false => destruct (poll_result_ext wf a b (proj1 L2) ltac:(congruence) Er E) as (u & o & Hu) end.
            exists (x ++ u), o. rewrite Hu, Hx, <- !app_assoc. reflexivity. }
      destruct (Hm B) as [(r0 & Hr0 & X)|(I1 & L1 & N1 & D1 & T1 & F1 & M1)]; [exists r0; split; [exact Hr0|exact X]|].
      exfalso. destruct (Hsome _ ltac:(apply I1) T1) as (j & Hj & Ha). fold (N (rounds B w0)) in Hj. rewrite N1 in Hj. fold (aw (rounds B w0) j) in Ha.
      specialize (M1 j Hj Ha). specialize (Hpos B j Hj T1 Ha). specialize (HB (member (cs (rounds B w0)) j)). lia.
    Qed.
  End Live.

  (* ------------- the wake-up bookkeeping is a function of the observable trace -------------
     The ghost fields of the world (g_fired, g_polled, g_lastpend, g_out, g_bad16, g_retpend, g_quiet) and the handle table are recomputed here
     from the trace alone by a fold [gfold]; [R] relates a world to the fold of its own trace and holds in every reachable state (selective
     strategy).  So C01 / C16 / C20, proved over the ghosts, are statements about the trace - the object that is compared with the crate. *)
  Section GhostTrace.
    Definition fupd (f: nat -> bool) (i: nat) (b: bool) : nat -> bool := fun j => if j =? i then b else f j.
    Record gt := { t_handed : list (list wk); t_fired : nat -> bool; t_lp : nat -> bool; t_polled : nat -> bool;
                   t_cur : nat; t_out : bool; t_bad : bool; t_ret : bool; t_quiet : bool }.
    Definition gstep (g: gt) (e: ev) : gt :=
      match e with
      | EB _ => {| t_handed := t_handed g; t_fired := t_fired g; t_lp := t_lp g; t_polled := t_polled g; t_cur := t_cur g; t_out := false; t_bad := t_bad g; t_ret := t_ret g; t_quiet := t_quiet g |}
      | EW _ => {| t_handed := t_handed g; t_fired := t_fired g; t_lp := t_lp g; t_polled := t_polled g; t_cur := t_cur g; t_out := true; t_bad := t_bad g; t_ret := t_ret g; t_quiet := t_quiet g |}
      | EC m (WSub i) =>
          {| t_handed := upd (t_handed g) m (nth m (t_handed g) [] ++ [WSub i]); t_fired := fupd (t_fired g) i false; t_lp := t_lp g;
             t_polled := fupd (t_polled g) i true; t_cur := i; t_out := t_out g;
             t_bad := t_bad g || (t_polled g i && t_lp g i && negb (t_fired g i)); t_ret := t_ret g; t_quiet := t_quiet g |}
      | EC m (WPar p) =>
          {| t_handed := upd (t_handed g) m (nth m (t_handed g) [] ++ [WPar p]); t_fired := t_fired g; t_lp := t_lp g; t_polled := t_polled g;
             t_cur := t_cur g; t_out := t_out g; t_bad := t_bad g; t_ret := t_ret g; t_quiet := t_quiet g |}
      | EAns a => {| t_handed := t_handed g; t_fired := t_fired g; t_lp := fupd (t_lp g) (t_cur g) (is_pend a); t_polled := t_polled g; t_cur := t_cur g;
                     t_out := t_out g; t_bad := t_bad g; t_ret := t_ret g; t_quiet := t_quiet g |}
      | EF c k => match nth_error (nth c (t_handed g) []) k with
                  | Some (WSub i) => {| t_handed := t_handed g; t_fired := fupd (t_fired g) i true; t_lp := t_lp g; t_polled := t_polled g; t_cur := t_cur g;
                                        t_out := t_out g; t_bad := t_bad g; t_ret := t_ret g; t_quiet := t_quiet g |}
                  | _ => g
                  end
      | EK k => {| t_handed := t_handed g ++ [[]]; t_fired := fupd (t_fired g) k false; t_lp := fupd (t_lp g) k false; t_polled := fupd (t_polled g) k false;
                   t_cur := t_cur g; t_out := t_out g; t_bad := t_bad g; t_ret := t_ret g; t_quiet := false |}
      | EEndP => {| t_handed := t_handed g; t_fired := t_fired g; t_lp := t_lp g; t_polled := t_polled g; t_cur := t_cur g; t_out := t_out g; t_bad := t_bad g; t_ret := true; t_quiet := true |}
      | EEndR _ | EEndX => {| t_handed := t_handed g; t_fired := t_fired g; t_lp := t_lp g; t_polled := t_polled g; t_cur := t_cur g; t_out := t_out g; t_bad := t_bad g; t_ret := false; t_quiet := true |}
      | _ => g
      end.
    Definition gfold (g: gt) (t: list ev) : gt := fold_left gstep t g.
    Lemma gfold_app g a b : gfold g (a ++ b) = gfold (gfold g a) b. Proof. apply fold_left_app. Qed.
    (* events that do not touch the bookkeeping: what handlers, destructors and queries emit *)
    Definition neutral (e: ev) : bool := match e with EDc _ | EV _ | ED | EN _ | EBool _ | EO => true | _ => false end.
    Lemma gfold_neutral g t : forallb neutral t = true -> gfold g t = g.
    Proof.
      unfold gfold. revert g. induction t as [|e t IH]; intros g H; cbn [fold_left forallb] in *; auto. apply andb_true_iff in H as [He Ht].
      assert (E : gstep g e = g) by (destruct e; try discriminate; reflexivity). rewrite E. apply IH. exact Ht.
    Qed.

    Variable rall_inst : bool.      (* does this instance ever re-arm everything (zip)?  Such an instance never vacates a slot. *)
    Hypothesis handle_neutral : forall s i a, forallb neutral (snd (handle s i a)) = true.
    Hypothesis drop_neutral : forall s, forallb neutral (drop_all s) = true.
    Hypothesis norall : rall_inst = false -> forall s i a s' o e, handle s i a = (s', Stop RAll o, e) -> False.

    Definition issub (h: wk) : Prop := match h with WSub _ => True | WPar _ => False end.
    Definition Rlp (w: world) (g: gt) (i: nat) : Prop :=
      lastpend w i = t_lp g i \/ (aw w i = false /\ lastpend w i = false /\ rall_inst = false).
    (* ex = Some (i, b): inside the poll of the child in slot i, whose answer (pending: b) the model has already recorded and the trace not yet *)
    Record R (ex: option (nat * bool)) (w: world) (g: gt) : Prop := {
      R_handed : handed w = t_handed g;
      R_sub : Forall (Forall issub) (handed w);
      R_fired : forall i, fired w i = t_fired g i;
      R_polled : forall i, polled w i = t_polled g i;
      R_lp : forall j, match ex with Some (i, b) => if j =? i then lastpend w i = b /\ t_cur g = i else Rlp w g j | None => Rlp w g j end;
      R_out : g_out w = t_out g; R_bad : g_bad16 w = t_bad g; R_ret : g_retpend w = t_ret g; R_quiet : g_quiet w = t_quiet g }.

    (* one transformation of the world: the trace grows by some events and R follows the fold over them *)
    Definition Step ex (w w': world) : Prop := forall g, R ex w g -> exists es, tr w' = tr w ++ es /\ R ex w' (gfold g es).
    Lemma Step_refl ex w : Step ex w w.
    Proof. intros g H. exists []. rewrite app_nil_r. auto. Qed.
    Lemma Step_trans ex w1 w2 w3 : Step ex w1 w2 -> Step ex w2 w3 -> Step ex w1 w3.
    Proof.
      intros A B g H. destruct (A g H) as (e1 & E1 & H1). destruct (B _ H1) as (e2 & E2 & H2).
      exists (e1 ++ e2). rewrite E2, E1, <- app_assoc, gfold_app. auto.
    Qed.
    Lemma nth_upd_f (l: list bool) j b i : j < length l -> nth i (upd l j b) false = fupd (fun x => nth x l false) j b i.
    Proof.
      intros Hj. unfold fupd. destruct (Nat.eqb_spec i j) as [->|Hne]; [apply nth_upd_same; auto|apply nth_upd_other; auto].
    Qed.
    (* R only looks at these fields of the world *)
    Lemma R_ext ex w w' g : handed w' = handed w -> g_fired w' = g_fired w -> g_polled w' = g_polled w -> g_lastpend w' = g_lastpend w ->
      cs w' = cs w -> g_out w' = g_out w -> g_bad16 w' = g_bad16 w -> g_retpend w' = g_retpend w -> g_quiet w' = g_quiet w -> R ex w g -> R ex w' g.
    Proof.
      intros E1 E2 E3 E4 E5 E6 E7 E8 E9 [A A' B C D E F G H]. constructor; try congruence.
      - intros i. unfold fired. rewrite E2. apply B.
      - intros i. unfold polled. rewrite E3. apply C.
      - intros i. specialize (D i). unfold Rlp, lastpend, aw in *. rewrite E4, E5. exact D.
    Qed.
    Lemma Step_emit_neutral ex w es : forallb neutral es = true -> Step ex w (emit w es).
    Proof. intros Hn g H. exists es. split; [reflexivity|]. rewrite gfold_neutral by exact Hn. apply (R_ext ex w); auto. Qed.
    Lemma Step_flags ex w f d gn : Step ex w (set_flags w f d gn).
    Proof. intros g H. exists []. rewrite app_nil_r. split; [reflexivity|]. apply (R_ext ex w); auto. Qed.
    Lemma Step_bits ex w b : Step ex w (set_bits w b).
    Proof. intros g H. exists []. rewrite app_nil_r. split; [reflexivity|]. apply (R_ext ex w); auto. Qed.
    (* a sub-waker fires *)
    Lemma Step_do_fire ex w c k j : nth_error (nth c (handed w) []) k = Some (WSub j) -> j < N w -> length (g_fired w) = N w -> parent w <> None ->
      Step ex w (do_fire (emit w [EF c k]) j).
    Proof.
      intros Hh Hj Hwf Hp g [A A' B C D E F G H].
      assert (Hgs : gstep g (EF c k) = {| t_handed := t_handed g; t_fired := fupd (t_fired g) j true; t_lp := t_lp g; t_polled := t_polled g; t_cur := t_cur g;
                                          t_out := t_out g; t_bad := t_bad g; t_ret := t_ret g; t_quiet := t_quiet g |}) by (cbn; rewrite <- A, Hh; reflexivity).
      assert (Hlen : j < length (g_fired w)) by (rewrite Hwf; exact Hj).
      assert (EN : N (emit w [EF c k]) = N w) by reflexivity.
      unfold do_fire. rewrite EN. apply Nat.ltb_lt in Hj. rewrite Hj. cbn [bits emit parent].
      destruct (nth j (bits w) true).
      - exists [EF c k]. split; [reflexivity|]. cbn [gfold fold_left]. rewrite Hgs. constructor; cbn; auto.
        intros i. unfold fired. cbn. rewrite nth_upd_f by exact Hlen. unfold fupd. destruct (i =? j); auto. apply B.
      - destruct (parent w) as [p|] eqn:Ep; [|contradiction]. exists [EF c k; EW p]. split; [cbn; rewrite <- app_assoc; reflexivity|].
        cbn [gfold fold_left]. rewrite Hgs. constructor; cbn; auto.
        intros i. unfold fired. cbn. rewrite nth_upd_f by exact Hlen. unfold fupd. destruct (i =? j); auto. apply B.
    Qed.
    (* premises the fire lemmas need, and that firing preserves *)
    Definition Pre (w: world) : Prop := length (g_fired w) = N w /\ FT w /\ parent w <> None.
    Lemma Pre_fire_handle w c k : Pre w -> Pre (fire_handle w c k).
    Proof.
      intros (L & F & P). destruct (fire_handle_X w c k) as (A & B & C). split; [|split].
      - unfold N. rewrite A. fold (N w). rewrite <- L. unfold fire_handle. destruct (nth_error _ k) as [[slot|pid]|]; auto.
        unfold do_fire. cbn [N cs emit]. destruct (slot <? _); auto. cbn [bits emit]. destruct (nth slot (bits w) true); cbn; auto; apply upd_length.
      - apply (FT_frame w); auto; [unfold N; rewrite A; lia|rewrite C; auto].
      - rewrite C. exact P.
    Qed.
    Lemma Step_fire_handle ex w c k : Pre w -> Step ex w (fire_handle w c k).
    Proof.
      intros (L & F & P) g HR. unfold fire_handle. destruct (nth_error (nth c (handed w) []) k) as [[slot|pid]|] eqn:E.
      - assert (Hin : In (WSub slot) (nth c (handed w) [])) by (eapply nth_error_In; eauto).
        assert (Hc : Forall (okh (N w)) (nth c (handed w) [])) by (apply Forall_nth_d'; [exact (proj1 F)|constructor]).
        rewrite Forall_forall in Hc. specialize (Hc _ Hin). cbn in Hc.
        apply (Step_do_fire ex w c k slot E Hc L P g HR).
      - exfalso. assert (Hin : In (WPar pid) (nth c (handed w) [])) by (eapply nth_error_In; eauto).
        assert (Hc : Forall issub (nth c (handed w) [])) by (apply Forall_nth_d'; [exact (R_sub _ _ _ HR)|constructor]).
        rewrite Forall_forall in Hc. exact (Hc _ Hin).
      - apply Step_refl. exact HR.
    Qed.
    Lemma Step_fires_of ex me hs : forall w, Pre w -> Step ex w (fires_of w me hs) /\ Pre (fires_of w me hs).
    Proof.
      induction hs as [|h r IH]; intros w HP; cbn [fires_of]; [split; [apply Step_refl|exact HP]|].
      destruct (match h with HSelf => (me, length (nth me (handed w) []) - 1) | HOf c k => (c, k) end) as [c k].
      destruct (IH (fire_handle w c k) (Pre_fire_handle w c k HP)) as [A B]. split; [|exact B].
      eapply Step_trans; [apply Step_fire_handle; exact HP|exact A].
    Qed.
    Definition vres_gt (w: world) (g: gt) (r: vres) : Prop :=
      match r with VCont w' | VPending w' | VReady w' _ | VAbort w' => exists es, tr w' = tr w ++ es /\ R None w' (gfold g es) end.
    (* changing the combinator state after the poll of slot i: the Rlp clauses survive *)
    Lemma R_set_cs w g s' : R None w g -> (forall j, aw w j = false -> Rlp w g j -> lastpend w j <> t_lp g j -> awaited s' j = false) ->
      R None (set_cs w s') g.
    Proof.
      intros [A A' B C D E F G H] Hk. constructor; auto.
      intros j. specialize (D j). cbn [R_lp] in *. unfold Rlp in *. destruct D as [D|(D1 & D2 & D3)]; [left; exact D|].
      destruct (Bool.bool_dec (lastpend w j) (t_lp g j)) as [Eq|Ne]; [left; exact Eq|].
      right. split; [|split].
      - unfold aw. cbn [cs set_cs]. apply Hk; [exact D1|right; auto|exact Ne].
      - exact D2.
      - exact D3.
    Qed.
    Lemma poll_child_gt w i pid : sel w = true -> i < N w -> wf w -> Q (cs w) -> aw w i = true -> FT w -> parent w <> None ->
      forall g, R None w g -> vres_gt w g (poll_child w i pid).
    Proof.
      intros Hs Hi Hwf HQ Haw HF Hp g HR. unfold poll_child. rewrite Hs.
      destruct (pop w (member (cs w) i)) as [stp sc'].
      set (m := member (cs w) i). set (a := answer stp).
      set (bad := nth i (g_polled w) false && nth i (g_lastpend w) false && negb (nth i (g_fired w) false)).
      set (w0 := set_oracle w sc' (upd (handed w) m (nth m (handed w) [] ++ [WSub i]))).
      set (w1 := emit (enter_child w0 i (bits w0) (is_pend a) bad) [EC m (WSub i)]).
      pose proof HR as [A A' B C D E F G H].
      assert (Li : forall l : list bool, length l = N w -> i < length l) by (intros l El; rewrite El; exact Hi).
      (* (1) the child is entered *)
      assert (R1 : R (Some (i, is_pend a)) w1 (gstep g (EC m (WSub i)))).
      { constructor; cbn.
        - rewrite A. reflexivity.
        - apply Forall_upd'; auto. apply Forall_app. split; [apply Forall_nth_d'; auto; constructor|constructor; [exact I|constructor]].
        - intros j. unfold fired. cbn. rewrite nth_upd_f by (apply Li, Hwf). unfold fupd. destruct (j =? i); auto. apply B.
        - intros j. unfold polled. cbn. rewrite nth_upd_f by (apply Li, Hwf). unfold fupd. destruct (j =? i); auto. apply C.
        - intros j. destruct (Nat.eqb_spec j i) as [->|Hne].
          + split; [|reflexivity]. unfold lastpend. cbn. apply nth_upd_same. apply Li, Hwf.
          + specialize (D j). cbn in D. unfold Rlp, lastpend, aw in *. cbn. rewrite nth_upd_other by auto. exact D.
        - exact E.
        - rewrite F. f_equal. unfold bad. specialize (B i). specialize (C i). specialize (D i). cbn in D. unfold fired, polled in *. rewrite B, C.
          destruct D as [D|(D1 & _)]; [unfold lastpend in D; rewrite D; reflexivity|congruence].
        - exact G.
        - exact H. }
      (* (2) the wakers the child fires while it is being polled *)
      assert (P1 : Pre w1).
      { split; [|split].
        - cbn. rewrite upd_length. apply Hwf.
        - destruct HF as [F1 F2]. split; cbn.
          + apply Forall_upd'; auto. apply Forall_app. split; [apply Forall_nth_d'; auto; constructor|constructor; [exact Hi|constructor]].
          + intros X. contradiction.
        - exact Hp. }
      destruct (Step_fires_of (Some (i, is_pend a)) m (fires stp) w1 P1) as [S2 P2].
      destruct (S2 _ R1) as (e2 & E2 & R2).
      set (w2 := fires_of w1 m (fires stp)) in *.
      assert (Ecs2 : cs w2 = cs w) by (unfold w2; rewrite (proj1 (fires_of_X w1 m (fires stp))); reflexivity).
      (* (3) the answer closes the window *)
      set (g2 := gfold (gstep g (EC m (WSub i))) e2) in *.
      assert (R3 : R None (emit w2 [EAns a]) (gstep g2 (EAns a))).
      { destruct R2 as [A2 A2' B2 C2 D2 E2' F2 G2 H2]. pose proof (D2 i) as Di. cbn in Di. rewrite Nat.eqb_refl in Di. destruct Di as [Dl Dc].
        constructor; cbn; auto.
        intros j. specialize (D2 j). cbn in D2. unfold Rlp, lastpend, aw in *. cbn. rewrite Dc. unfold fupd. destruct (Nat.eqb_spec j i) as [Ej|Hne].
        - left. rewrite Ej. exact Dl.
        - exact D2. }
      (* (4) what the handler does *)
      destruct (handle (cs w2) i a) as [[s' ac] eh] eqn:Eh.
      assert (Hn : forallb neutral eh = true) by (pose proof (handle_neutral (cs w2) i a) as X; rewrite Eh in X; exact X).
      assert (Hsl : slots s' = slots (cs w2)) by (pose proof (handle_slots (cs w2) i a) as X; rewrite Eh in X; exact X).
      set (w3 := emit w2 (EAns a :: eh)).
      assert (R4 : R None w3 (gfold g2 (EAns a :: eh))).
      { change (EAns a :: eh) with ([EAns a] ++ eh). rewrite gfold_app. cbn [gfold fold_left].
        change (fold_left gstep eh (gstep g2 (EAns a))) with (gfold (gstep g2 (EAns a)) eh). rewrite gfold_neutral by exact Hn.
        eapply R_ext; [| | | | | | | | |exact R3]; reflexivity. }
      assert (Etr : tr w3 = tr w ++ (EC m (WSub i) :: e2 ++ EAns a :: eh)).
      { unfold w3. cbn [tr emit]. rewrite E2. unfold w1. cbn [tr emit enter_child set_oracle]. rewrite <- !app_assoc. reflexivity. }
      assert (Eg : gfold g (EC m (WSub i) :: e2 ++ EAns a :: eh) = gfold g2 (EAns a :: eh)).
      { change (EC m (WSub i) :: e2 ++ EAns a :: eh) with ([EC m (WSub i)] ++ e2 ++ EAns a :: eh). rewrite !gfold_app. reflexivity. }
      assert (Haw2 : awaited (cs w2) i = true) by (rewrite Ecs2; exact Haw).
      assert (HQ2 : Q (cs w2)) by (rewrite Ecs2; exact HQ).
      assert (Hlp3 : forall j, aw w3 j = false -> j <> i).
      { intros j Hj ->. unfold aw, w3 in Hj. cbn in Hj. rewrite Ecs2 in Hj. unfold aw in Haw. congruence. }
      destruct ac as [|r o|]; cbn [vres_gt].
      - exists (EC m (WSub i) :: e2 ++ EAns a :: eh). split; [exact Etr|]. rewrite Eg. apply R_set_cs; [exact R4|].
        intros j Hj _ _. pose proof (handle_cont_other _ _ _ _ _ Eh j (Hlp3 j Hj)) as X. rewrite X. unfold aw, w3 in Hj. cbn in Hj. exact Hj.
      - exists (EC m (WSub i) :: e2 ++ EAns a :: eh). split; [unfold apply_rearm; destruct (sel (set_cs w3 s')); [destruct r|]; exact Etr|]. rewrite Eg.
        assert (R5 : R None (set_cs w3 s') (gfold g2 (EAns a :: eh))).
        { apply R_set_cs; [exact R4|]. intros j Hj [X|(_ & _ & Hr)] Hne; [contradiction|].
          destruct r.
          - rewrite (handle_stop_other _ _ _ _ _ _ _ HQ2 Haw2 Eh ltac:(discriminate) j (Hlp3 j Hj)). unfold aw, w3 in Hj. cbn in Hj. exact Hj.
          - rewrite (handle_stop_other _ _ _ _ _ _ _ HQ2 Haw2 Eh ltac:(discriminate) j (Hlp3 j Hj)). unfold aw, w3 in Hj. cbn in Hj. exact Hj.
          - exfalso. eapply norall; eauto. }
        unfold apply_rearm. destruct (sel (set_cs w3 s')); [destruct r|]; try exact R5; (eapply R_ext; [| | | | | | | | |exact R5]; reflexivity).
      - exists (EC m (WSub i) :: e2 ++ EAns a :: eh). split; [exact Etr|]. rewrite Eg. exact R4.
    Qed.
    Lemma K_clear w i : K w -> K (fst (clear_bit w i)) \/ True. Proof. auto. Qed.
    (* the loop: visit, scan *)
    Lemma visit_gt vis w i pid n : i < N w -> J vis w -> FTp n w -> forall g, R None w g -> vres_gt w g (visit w i pid).
    Proof.
      intros Hi HJ (HF & Hp & Hn) g HR. unfold visit.
      assert (HK : K w) by apply HJ. destruct HK as (Hwf & HQ & _). assert (Hs : sel w = true) by apply Hwf.
      assert (Hsame : vres_gt w g (VCont w)) by (exists []; rewrite app_nil_r; auto).
      destruct (any_per_iter && negb (any_ready w)); [exists []; rewrite app_nil_r; auto|].
      assert (Hcl : forall w1 was, clear_bit w i = (w1, was) -> was = true -> aw w i = true -> vres_gt w g (poll_child w1 i pid)).
      { intros w1 was Ec Ew Ha. unfold clear_bit in Ec. rewrite Hs in Ec. destruct (nth i (bits w) false); [|inversion Ec; subst; discriminate].
        inversion Ec; subst w1. clear Ec.
        assert (X : vres_gt (set_bits w (upd (bits w) i false)) g (poll_child (set_bits w (upd (bits w) i false)) i pid)).
        { apply poll_child_gt; [exact Hs|exact Hi| |exact HQ|exact Ha| |exact Hp|].
          - destruct Hwf. constructor; cbn; auto. rewrite upd_length. auto.
          - apply (FT_frame w); auto.
          - eapply R_ext; [| | | | | | | | |exact HR]; reflexivity. }
        destruct (poll_child (set_bits w (upd (bits w) i false)) i pid); exact X. }
      assert (Hnc : forall w1 was, clear_bit w i = (w1, was) -> vres_gt w g (VCont w1)).
      { intros w1 was Ec. unfold clear_bit in Ec. rewrite Hs in Ec. destruct (nth i (bits w) false); inversion Ec; subst; [|exact Hsame].
        exists []. rewrite app_nil_r. split; [reflexivity|]. eapply R_ext; [| | | | | | | | |exact HR]; reflexivity. }
      destruct clear_first.
      - destruct (clear_bit w i) as [w1 was] eqn:Ec. destruct was; [|exact Hsame].
        destruct (awaited (cs w) i) eqn:Ea; [eapply Hcl; eauto|eapply Hnc; eauto].
      - destruct (awaited (cs w) i) eqn:Ea; [|exact Hsame].
        destruct (clear_bit w i) as [w1 was] eqn:Ec. destruct was; [eapply Hcl; eauto|exact Hsame].
    Qed.
    Lemma vres_gt_trans w g r : forall w1 es, tr w1 = tr w ++ es -> vres_gt w1 (gfold g es) r -> vres_gt w g r.
    Proof.
      intros w1 es E H. destruct r as [w'|w'|w' o|w']; cbn in *; destruct H as (e2 & E2 & H2); exists (es ++ e2); rewrite E2, E, <- app_assoc, gfold_app; auto.
    Qed.
    Lemma scan_gt n is : forall vis w pid, (forall i, In i is -> i < N w) -> J vis w -> FTp n w -> forall g, R None w g -> vres_gt w g (scan w is pid).
    Proof.
      induction is as [|i rest IH]; intros vis w pid Hin HJ HF g HR; cbn [scan]; [exists []; rewrite app_nil_r; auto|].
      assert (Hi : i < N w) by (apply Hin; left; reflexivity).
      pose proof (visit_gt vis w i pid n Hi HJ HF g HR) as Hv.
      pose proof (visit_J vis w i pid Hi HJ) as HJ'.
      assert (Hsel : sel w = true) by apply HJ.
      assert (Hin' : i < n) by (destruct HF as (_ & _ & <-); exact Hi).
      destruct (visit_FT n w i pid Hsel Hin' HF) as [HF' _].
      destruct (visit w i pid) as [w'|w'|w' o|w']; cbn [post vres_FT] in *; try exact Hv.
      destruct Hv as (es & Ees & Res). destruct HJ' as (HJ1 & HN1 & _).
      apply (vres_gt_trans w g _ w' es Ees). apply (IH (i :: vis)); auto.
      intros k Hk. rewrite HN1. apply Hin. right. exact Hk.
    Qed.
    (* the ends of a poll *)
    Lemma R_endp w g : R None w g -> R None (set_ret (emit w [EEndP]) true) (gstep g EEndP).
    Proof. intros [A A' B C D E F G H]. constructor; cbn; auto. Qed.
    Lemma R_endr w g o : R None w g -> R None (set_ret (emit w [EEndR o]) false) (gstep g (EEndR o)).
    Proof. intros [A A' B C D E F G H]. constructor; cbn; auto. Qed.
    Lemma R_mark_final w g o : R None w g -> R None (mark_final w o) g.
    Proof. intros H. unfold mark_final. destruct (final o); [eapply R_ext; [| | | | | | | | |exact H]; reflexivity|exact H]. Qed.
    Lemma R_unwind w g : R None w g -> R None (unwind w) (gfold g (ED :: drop_all (cs w) ++ [EEndX])).
    Proof.
      intros [A A' B C D E F G H]. change (ED :: drop_all (cs w) ++ [EEndX]) with ((ED :: drop_all (cs w)) ++ [EEndX]). rewrite gfold_app.
      rewrite (gfold_neutral g (ED :: drop_all (cs w))) by (cbn; apply drop_neutral). constructor; cbn; auto.
    Qed.
    Lemma R_begin w g pid np : R None w g -> R None (begin_poll w pid np) (gstep g (EB pid)).
    Proof. intros [A A' B C D E F G H]. constructor; cbn; auto. Qed.
    Lemma R_cs_same w g s' : R None w g -> (forall i, awaited s' i = awaited (cs w) i) -> R None (set_cs w s') g.
    Proof. intros H Ha. apply R_set_cs; auto. intros j Hj _ _. rewrite Ha. exact Hj. Qed.

    Theorem poll_gt w pid np : Inv w -> FT w -> forall g, R None w g -> exists es, tr (poll w pid np) = tr w ++ es /\ R None (poll w pid np) (gfold g es).
    Proof.
      intros (HK & _ & _) HF g HR. unfold poll.
      destruct (pre_exit (cs w)) as [o|].
      { exists [EB pid; EEndR o]. split; [unfold mark_final; destruct (final o); reflexivity|]. apply R_mark_final.
        cbn [gfold fold_left]. destruct HR as [A A' B C D E F G H]. constructor; cbn; auto. }
      set (w0 := begin_poll w pid np).
      assert (HK0 : K w0) by (dK HK; unf; cbn; split; [constructor; auto|]; repeat split; auto).
      assert (HR0 : R None w0 (gstep g (EB pid))) by (apply R_begin; exact HR).
      assert (HF0 : FTp (N w) w0) by (split; [split; [exact (proj1 HF)|cbn; discriminate]|split; [cbn; discriminate|reflexivity]]).
      assert (Etr0 : tr w0 = tr w ++ [EB pid]) by reflexivity.
      destruct (pre_any (cs w0) && negb (any_ready w0)).
      { exists [EB pid; EEndP]. split; [cbn; rewrite <- app_assoc; reflexivity|]. cbn [gfold fold_left]. apply R_endp. exact HR0. }
      destruct (order (cs w0)) as [[is s1]|] eqn:Eo.
      2:{ exists (EB pid :: ED :: drop_all (cs w0) ++ [EEndX]). split; [cbn; rewrite <- app_assoc; reflexivity|].
          change (EB pid :: ED :: drop_all (cs w0) ++ [EEndX]) with ([EB pid] ++ (ED :: drop_all (cs w0) ++ [EEndX])). rewrite gfold_app. apply R_unwind. exact HR0. }
      assert (HQ0 : Q (cs w0)) by apply HK0.
      assert (Hs1 : slots s1 = N w0) by (eapply order_slots; eauto).
      assert (Ha1 : forall i, awaited s1 i = awaited (cs w0) i) by (eapply order_aw; eauto).
      assert (HQ1 : Q s1) by (eapply Q_order; eauto).
      assert (HJ0 : J [] (set_cs w0 s1)) by (split; [apply K_cs; auto|]; split; intros i []).
      assert (Hin : forall i, In i is -> i < N (set_cs w0 s1)).
      { intros i Hi. unfold N; cbn. rewrite Hs1. apply (order_bound (cs w0) is s1 HQ0 Eo i Hi). }
      assert (HR1 : R None (set_cs w0 s1) (gstep g (EB pid))) by (apply R_cs_same; auto).
      assert (HF1 : FTp (N w) (set_cs w0 s1)).
      { destruct HF0 as (F & P & Hn). split; [|split; [exact P|unfold N; cbn [cs set_cs]; rewrite Hs1; exact Hn]].
        apply (FT_frame w0); auto. unfold N; cbn [cs set_cs]. rewrite Hs1. unfold N. lia. }
      pose proof (scan_J [] (set_cs w0 s1) is pid Hin HJ0) as Hsc.
      pose proof (scan_gt (N w) is [] (set_cs w0 s1) pid Hin HJ0 HF1 _ HR1) as Hg.
      destruct (scan (set_cs w0 s1) is pid) as [w1|w1|w1 o|w1]; cbn [vres_gt] in Hg; destruct Hg as (es & Ees & Res).
      - destruct Hsc as ((HK1 & _) & _). assert (HQw1 : Q (cs w1)) by apply HK1.
        pose proof (finish_aw (cs w1)) as Hfa. destruct (finish (cs w1)) as [s2 [x|]]; cbn [fst] in Hfa.
        + exists (EB pid :: es ++ [EEndR x]). split; [unfold mark_final; destruct (final x); cbn; rewrite Ees; cbn; rewrite <- !app_assoc; reflexivity|].
          apply R_mark_final. change (EB pid :: es ++ [EEndR x]) with ([EB pid] ++ es ++ [EEndR x]). rewrite !gfold_app. cbn [gfold fold_left].
          apply R_endr. apply R_cs_same; auto.
        + exists (EB pid :: es ++ [EEndP]). split; [cbn; rewrite Ees; cbn; rewrite <- !app_assoc; reflexivity|].
          change (EB pid :: es ++ [EEndP]) with ([EB pid] ++ es ++ [EEndP]). rewrite !gfold_app. cbn [gfold fold_left].
          apply R_endp. apply R_cs_same; auto.
      - exists (EB pid :: es ++ [EEndP]). split; [cbn; rewrite Ees; cbn; rewrite <- !app_assoc; reflexivity|].
        change (EB pid :: es ++ [EEndP]) with ([EB pid] ++ es ++ [EEndP]). rewrite !gfold_app. cbn [gfold fold_left]. apply R_endp. exact Res.
      - destruct Hsc as (HK1 & _). assert (HQw1 : Q (cs w1)) by apply HK1.
        exists (EB pid :: es ++ [EEndR o]). split; [unfold mark_final; destruct (final o); cbn; rewrite Ees; cbn; rewrite <- !app_assoc; reflexivity|].
        apply R_mark_final. change (EB pid :: es ++ [EEndR o]) with ([EB pid] ++ es ++ [EEndR o]). rewrite !gfold_app. cbn [gfold fold_left].
        apply R_endr. apply R_cs_same; [exact Res|]. intros i. apply after_aw. exact HQw1.
      - exists (EB pid :: es ++ ED :: drop_all (cs w1) ++ [EEndX]). split; [cbn; rewrite Ees; cbn; rewrite <- !app_assoc; reflexivity|].
        change (EB pid :: es ++ ED :: drop_all (cs w1) ++ [EEndX]) with ([EB pid] ++ es ++ (ED :: drop_all (cs w1) ++ [EEndX])). rewrite !gfold_app.
        apply R_unwind. exact Res.
    Qed.
    Hypothesis mutate_FT' : forall w m a sc, Inv w -> FT w -> FT (mutate w m a sc).
    Hypothesis mutate_gt : forall w m a sc g, Inv w -> FT w -> R None w g ->
      exists es, tr (mutate w m a sc) = tr w ++ es /\ R None (mutate w m a sc) (gfold g es).
    Lemma step_gt w o : Inv w -> FT w -> forall g, R None w g -> exists es, tr (step_op w o) = tr w ++ es /\ R None (step_op w o) (gfold g es).
    Proof.
      intros HI HF g HR. assert (Hsame : exists es, tr w = tr w ++ es /\ R None w (gfold g es)) by (exists []; rewrite app_nil_r; auto).
      destruct o as [| |c k| |m a sc]; cbn [step_op].
      - destruct (finished w || dropped w); [exact Hsame|apply poll_gt; auto].
      - destruct (finished w || dropped w); [exact Hsame|apply poll_gt; auto].
      - assert (HR1 : R None (emit w [EO]) g) by (eapply R_ext; [| | | | | | | | |exact HR]; reflexivity).
        destruct (parent w) as [p|] eqn:Ep.
        + assert (HP : Pre (emit w [EO])).
          { split; [|split; [|cbn; rewrite Ep; discriminate]]; [apply HI|apply (FT_frame w); auto]. }
          destruct (Step_fire_handle None (emit w [EO]) c k HP g HR1) as (es & Ees & Res).
          exists (EO :: es). split; [rewrite Ees; cbn; rewrite <- app_assoc; reflexivity|]. exact Res.
        + assert (Hn : nth_error (nth c (handed w) []) k = None).
          { destruct HF as [_ F2]. specialize (F2 Ep). assert (X : nth c (handed w) [] = []) by (apply (Forall_nth_d' (fun l => l = [])); auto).
            rewrite X. destruct k; reflexivity. }
          exists [EO]. split; [unfold fire_handle; cbn [handed emit]; rewrite Hn; reflexivity|].
          unfold fire_handle. cbn [handed emit]. rewrite Hn. exact HR1.
      - destruct (dropped w).
        + exists [ED]. split; [reflexivity|]. eapply R_ext; [| | | | | | | | |exact HR]; reflexivity.
        + exists (ED :: drop_all (cs w)). split; [reflexivity|]. rewrite gfold_neutral by (cbn; apply drop_neutral).
          eapply R_ext; [| | | | | | | | |exact HR]; reflexivity.
      - destruct (dropped w); [exact Hsame|apply mutate_gt; auto].
    Qed.
    Lemma FT_step w o : Inv w -> FT w -> FT (step_op w o).
    Proof. intros HI HF. exact (FT_run mutate_FT' [o] w HI HF). Qed.
    (* in every reachable state the bookkeeping of the world is the fold of its own trace *)
    Theorem run_gt ops : forall w g, Inv w -> FT w -> R None w g -> exists es, tr (run_ops w ops) = tr w ++ es /\ R None (run_ops w ops) (gfold g es).
    Proof.
      induction ops as [|o r IH]; intros w g HI HF HR; cbn [run_ops fold_left]; [exists []; rewrite app_nil_r; auto|].
      destruct (step_gt w o HI HF g HR) as (e1 & E1 & R1).
      destruct (IH (step_op w o) _ (Inv_step w o HI) (FT_step w o HI HF) R1) as (e2 & E2 & R2).
      exists (e1 ++ e2). unfold run_ops in *. rewrite E2, E1, <- app_assoc, gfold_app. auto.
    Qed.
    Theorem ghost_is_trace w0 ops g0 : Inv w0 -> FT w0 -> R None w0 g0 -> tr w0 = [] ->
      R None (run_ops w0 ops) (gfold g0 (tr (run_ops w0 ops))).
    Proof. intros HI HF HR E. destruct (run_gt ops w0 g0 HI HF HR) as (es & Ees & Res). rewrite Ees, E. exact Res. Qed.
    (* C16 as a statement about the trace alone: the monitor never fires *)
    Theorem C16_trace w0 ops g0 : Inv w0 -> FT w0 -> R None w0 g0 -> tr w0 = [] -> t_bad (gfold g0 (tr (run_ops w0 ops))) = false.
    Proof. intros HI HF HR E. rewrite <- (R_bad _ _ _ (ghost_is_trace w0 ops g0 HI HF HR E)). apply C16_generic. exact HI. Qed.
    (* C01 / C20 with the wake-up bookkeeping read off the trace (which slots are still awaited is the model's state) *)
    Theorem C01_trace w0 ops g0 i : Inv w0 -> FT w0 -> R None w0 g0 -> tr w0 = [] -> let w := run_ops w0 ops in let g := gfold g0 (tr w) in
      t_ret g = true -> i < N w -> aw w i = true -> t_polled g i = true -> t_fired g i = true -> t_out g = true.
    Proof.
      intros HI HF HR E. cbv zeta. intros Hr Hi Ha Hp Hf. pose proof (ghost_is_trace w0 ops g0 HI HF HR E) as X.
      rewrite <- (R_out _ _ _ X). apply (C01_generic w0 ops i HI); [rewrite (R_ret _ _ _ X); exact Hr|exact Hi|].
      split; [exact Ha|]. split; [rewrite (R_polled _ _ _ X); exact Hp|rewrite (R_fired _ _ _ X); exact Hf].
    Qed.
    Theorem C20_trace w0 ops g0 i : Inv w0 -> FT w0 -> R None w0 g0 -> tr w0 = [] -> let w := run_ops w0 ops in let g := gfold g0 (tr w) in
      t_ret g = true -> t_quiet g = true -> i < N w -> aw w i = true -> t_polled g i = true.
    Proof.
      intros HI HF HR E. cbv zeta. intros Hr Hq Hi Ha. pose proof (ghost_is_trace w0 ops g0 HI HF HR E) as X.
      rewrite <- (R_polled _ _ _ X). apply (C20_generic w0 ops i HI); [rewrite (R_ret _ _ _ X); exact Hr|rewrite (R_quiet _ _ _ X); exact Hq|exact Hi|exact Ha].
    Qed.
    (* sibling progress with "has signalled since its last poll" / "has never been polled" read off the trace *)
    Theorem progress_trace w0 ops g0 o j : Inv w0 -> FT w0 -> R None w0 g0 -> tr w0 = [] -> (o = OPollFresh \/ o = OPollSame) ->
      let w := run_ops w0 ops in let g := gfold g0 (tr w) in
      finished w = false -> dropped w = false -> j < N w -> aw w j = true -> (t_fired g j = true \/ t_polled g j = false) ->
      exists pid u, tr (step_op w o) = tr w ++ EB pid :: u /\ (subpolled j u \/ (exists r, In (EEndR r) u) \/ In EEndX u).
    Proof.
      intros HI HF HR E Ho. cbv zeta. intros Hf Hd Hj Ha Hs. pose proof (ghost_is_trace w0 ops g0 HI HF HR E) as X.
      apply (sibling_progress w0 ops o j HI Ho Hf Hd Hj Ha).
      destruct Hs as [Hs|Hs]; [left; rewrite (R_fired _ _ _ X); exact Hs|right; rewrite (R_polled _ _ _ X); exact Hs].
    Qed.
    (* group mutations *)
    Lemma nth_app_false (l: list bool) m i : nth i (l ++ repeat false m) false = nth i l false.
    Proof.
      rewrite nth_app_repeat. destruct (Nat.ltb_spec i (length l)); [reflexivity|]. rewrite nth_overflow by auto. destruct (_ <? m); reflexivity.
    Qed.
    Lemma R_grow w g s' m : R None w g -> (forall i, awaited s' i = awaited (cs w) i) -> R None (w_grow w s' m) g.
    Proof.
      intros [A A' B C D E F G H] Ha. constructor; cbn; auto.
      - intros i. unfold fired. cbn. rewrite nth_app_false. apply B.
      - intros i. unfold polled. cbn. rewrite nth_app_false. apply C.
      - intros i. specialize (D i). cbn in D. unfold Rlp, lastpend, aw in *. cbn. rewrite Ha, nth_app_false. exact D.
    Qed.
    Lemma R_occupy w g s' k sc : R None w g -> wf w -> k < N w -> (forall i, i <> k -> awaited s' i = awaited (cs w) i) ->
      R None (emit (w_occupy w s' k sc) [EK k]) (gstep g (EK k)).
    Proof.
      intros [A A' B C D E F G H] Hwf Hk Ha.
      assert (Lk : forall l : list bool, length l = N w -> k < length l) by (intros l El; rewrite El; exact Hk).
      constructor; cbn; auto.
      - rewrite A. reflexivity.
      - apply Forall_app. split; [exact A'|constructor; [constructor|constructor]].
      - intros i. unfold fired. cbn. rewrite nth_upd_f by (apply Lk, Hwf). unfold fupd. destruct (i =? k); auto. apply B.
      - intros i. unfold polled. cbn. rewrite nth_upd_f by (apply Lk, Hwf). unfold fupd. destruct (i =? k); auto. apply C.
      - intros i. specialize (D i). cbn in D. unfold Rlp, lastpend, aw in *. cbn. rewrite nth_upd_f by (apply Lk, Hwf). unfold fupd.
        destruct (Nat.eqb_spec i k) as [->|Hne]; [left; reflexivity|]. rewrite (Ha i Hne). exact D.
    Qed.
    Lemma R_vacate w g s' k : R None w g -> wf w -> k < N w -> rall_inst = false -> awaited s' k = false -> (forall i, i <> k -> awaited s' i = awaited (cs w) i) ->
      R None (w_vacate w s' k) g.
    Proof.
      intros [A A' B C D E F G H] Hwf Hk Hr Hak Ha.
      assert (Lk : k < length (g_lastpend w)) by (rewrite (wf_lastpend _ Hwf); exact Hk).
      constructor; cbn; auto.
      intros i. specialize (D i). cbn in D. unfold Rlp, lastpend, aw in *. cbn. rewrite nth_upd_f by exact Lk. unfold fupd.
      destruct (Nat.eqb_spec i k) as [->|Hne]; [right; auto|]. rewrite (Ha i Hne). exact D.
    Qed.
  End GhostTrace.
End Scan.

