From Coq Require Import List Arith Bool.
Import ListNotations.
Require Import ScanFull InstsFull.

(* Executable models of the combinators that hand the caller's Context straight to their children:
   race, race_ok (array / Vec / tuple algorithms), chain, wait_until.  Same world, events and handle resolution as the scan. *)
Section Pass.
  Variable St : Type.
  Definition W := world St.
  (* poll member/child m with the caller's waker *)
  Definition poll_direct (w: W) (m pid: nat) : W * ans :=
    let '(stp, sc') := pop St w m in
    let w0 := set_oracle St w sc' (upd (handed St w) m (nth m (handed St w) [] ++ [WPar pid])) in
    let w1 := emit St w0 [EC m (WPar pid)] in
    let w2 := fires_of St (fun _ => 0) w1 m (fires stp) in
    (emit St w2 [EAns (answer stp)], answer stp).
  Definition unwind_p (w: W) (drops: list ev) : W :=
    set_flags St (emit St w (ED :: drops ++ [EEndX])) true true true.
  Definition finish_p (w: W) (o: out) (fin: bool) : W :=
    let w' := emit St w [EEndR o] in if fin then set_flags St w' true (dropped St w') (gone St w') else w'.
  Definition begin_p (w: W) (pid np: nat) : W := emit St (set_np St w np) [EB pid].
End Pass.

Definition rot (n off: nat) : list nat := map (fun k => (k + off) mod n) (seq 0 n).
Definition drops_all (n: nat) : list ev := map EDc (seq 0 n).

(* ---------------- race ---------------- *)
Record rst := { r_off : nat; r_n : nat }.
Fixpoint race_scan (w: W rst) (is: list nat) (pid: nat) : W rst * option (option out) :=   (* Some None = panic *)
  match is with
  | [] => (w, None)
  | i :: rest => let '(w1, a) := poll_direct rst w i pid in
                 match a with
                 | AReady (ROk v) | AReady (RErr v) => (w1, Some (Some (OVals [v])))
                 | APanic => (w1, Some None)
                 | _ => race_scan w1 rest pid
                 end
  end.
Definition race_poll (w: W rst) (pid np: nat) : W rst :=
  let w0 := begin_p rst w pid np in
  let s := cs rst w0 in
  if r_n s =? 0 then unwind_p rst w0 [] else
  let w1 := set_cs rst w0 {| r_off := (r_off s + 1) mod r_n s; r_n := r_n s |} in
  match race_scan w1 (rot (r_n s) (r_off s)) pid with
  | (w2, None) => emit rst w2 [EEndP]
  | (w2, Some (Some o)) => finish_p rst w2 o true
  | (w2, Some None) => unwind_p rst w2 (drops_all (r_n s))
  end.

(* ---------------- race_ok: array (in-order, no done flag), tuple (Indexer order), Vec (MaybeDone) ---------------- *)
Record kst := { k_kind : nat (* 0 array, 1 tuple, 2 vec *); k_n : nat; k_off : nat; k_errs : list (option nat); k_completed : nat; k_gone : list bool }.
Definition kdone (w: W kst) (i: nat) : W kst * list ev :=
  let s := cs kst w in
  if k_kind s =? 2 then (set_cs kst w {| k_kind := k_kind s; k_n := k_n s; k_off := k_off s; k_errs := k_errs s; k_completed := k_completed s; k_gone := upd (k_gone s) i true |}, [EDc i]) else (w, []).
Definition k_drops (s: kst) : list ev := flat_map (fun i => if nth i (k_gone s) false then [] else [EDc i]) (seq 0 (k_n s)).
Fixpoint rok_scan (w: W kst) (is: list nat) (pid: nat) : W kst * option (option out) :=
  match is with
  | [] => (w, None)
  | i :: rest =>
      match nth i (k_errs (cs kst w)) None with
      | Some _ => rok_scan w rest pid                 (* this child already failed: skipped (Vec: MaybeDone::Done is not re-polled) *)
      | None =>
          let '(w1, a) := poll_direct kst w i pid in
          match a with
          | AReady (ROk v) => let '(w1', e) := kdone w1 i in (emit kst w1' e, Some (Some (OOk [v])))
          | AReady (RErr e) =>
              let '(w1', ed) := kdone w1 i in
              let s := cs kst w1' in
              rok_scan (emit kst (set_cs kst w1' {| k_kind := k_kind s; k_n := k_n s; k_off := k_off s; k_errs := upd (k_errs s) i (Some e); k_completed := k_completed s + 1; k_gone := k_gone s |}) ed) rest pid
          | APanic => (w1, Some None)
          | _ => rok_scan w1 rest pid
          end
      end
  end.
Definition rok_poll (w: W kst) (pid np: nat) : W kst :=
  let w0 := begin_p kst w pid np in
  let s := cs kst w0 in
  let is := if k_kind s =? 1 then rot (k_n s) (k_off s) else seq 0 (k_n s) in
  let w1 := if k_kind s =? 1 then set_cs kst w0 {| k_kind := 1; k_n := k_n s; k_off := (k_off s + 1) mod k_n s; k_errs := k_errs s; k_completed := k_completed s; k_gone := k_gone s |} else w0 in
  match rok_scan w1 is pid with
  | (w2, None) =>
      let s2 := cs kst w2 in
      if k_completed s2 =? k_n s2
      then finish_p kst w2 (OErrs (flat_map (fun o => match o with Some e => [e] | None => [] end) (k_errs s2))) true
      else emit kst w2 [EEndP]
  | (w2, Some (Some o)) => finish_p kst w2 o true
  | (w2, Some None) => unwind_p kst w2 (k_drops (cs kst w2))
  end.

(* ---------------- chain ---------------- *)
Record cst := { c_idx : nat; c_n : nat }.
Fixpoint chain_loop (fuel: nat) (w: W cst) (pid: nat) : W cst :=
  match fuel with
  | 0 => w
  | S f =>
      let s := cs cst w in
      if c_idx s =? c_n s then finish_p cst w ONone true else
      let '(w1, a) := poll_direct cst w (c_idx s) pid in
      match a with
      | AItem v => finish_p cst w1 (OSome None [v]) false
      | AEnd => chain_loop f (set_cs cst w1 {| c_idx := c_idx s + 1; c_n := c_n s |}) pid
      | APanic => unwind_p cst w1 (drops_all (c_n s))
      | _ => emit cst w1 [EEndP]
      end
  end.
Definition chain_poll (w: W cst) (pid np: nat) : W cst :=
  let w0 := begin_p cst w pid np in chain_loop (S (c_n (cs cst w0) - c_idx (cs cst w0))) w0 pid.

(* ---------------- wait_until: child 0 = deadline, child 1 = inner ---------------- *)
Record ust := { u_stream : bool; u_started : bool (* deadline has resolved *) }.
Definition wait_poll (w: W ust) (pid np: nat) : W ust :=
  let w0 := begin_p ust w pid np in
  let s := cs ust w0 in
  (* `late`: events that happen after the inner poll but before the function returns (the stream variant keeps the
     deadline's output alive as a match-scrutinee temporary until the arm has run) *)
  let inner (w1: W ust) (late: list ev) :=
    let '(w2, a) := poll_direct ust w1 1 pid in
    let w3 := emit ust w2 late in
    match a with
    | AReady (ROk v) | AReady (RErr v) => finish_p ust w3 (OVals [v]) true
    | AItem v => finish_p ust w3 (OSome None [v]) false
    | AEnd => finish_p ust w3 ONone true
    | APanic => unwind_p ust w3 [EDc 1; EDc 0]
    | _ => emit ust w3 [EEndP]
    end in
  if u_started s then inner w0 [] else
  let '(w1, a) := poll_direct ust w0 0 pid in
  match a with
  | APend => emit ust w1 [EEndP]
  | APanic => unwind_p ust w1 [EDc 1; EDc 0]
  | AReady (ROk v) | AReady (RErr v) =>
      let w2 := set_cs ust w1 {| u_stream := u_stream s; u_started := true |} in
      if u_stream s then inner w2 [EV v] else inner (emit ust w2 [EV v]) []
  | _ => inner (set_cs ust w1 {| u_stream := u_stream s; u_started := true |}) []
  end.

(* ---------------- common driver ---------------- *)
Section Drive.
  Variable St : Type.
  Variable pollf : W St -> nat -> nat -> W St.
  Variable dropsf : St -> list ev.
  Definition p_step (w: W St) (o: op) : W St :=
    match o with
    | OPollFresh | OPollSame =>
        if finished St w || dropped St w then w else
        let fresh := match o with OPollFresh => true | _ => (nparents St w =? 0) end in
        let np := if fresh then S (nparents St w) else nparents St w in
        pollf w (np - 1) np
    | OFire c k => fire_handle St (fun _ => 0) (emit St w [EO]) c k
    | ODrop => if dropped St w then set_flags St (emit St w [ED]) (finished St w) true true
               else set_flags St (emit St w (ED :: dropsf (cs St w))) (finished St w) true true
    | OMut _ _ _ => w
    end.
  Definition p_world (w: W St) (ops: list op) : W St := fold_left p_step ops w.
  Definition p_close (w': W St) : list ev :=
    if gone St w' then tr St w' else if dropped St w' then tr St w' ++ [ED] else tr St w' ++ ED :: dropsf (cs St w').
  Definition p_run (w: W St) (ops: list op) : list ev := p_close (p_world w ops).
End Drive.

(* the world after a history; every theorem about a pass-through combinator is a statement about these terms *)
Definition r_drops (s: rst) := drops_all (r_n s).
Definition race_world (scs: list (list step)) (ops: list op) : W rst :=
  p_world rst race_poll r_drops (mk_world {| r_off := 0; r_n := length scs |} false (length scs) scs) ops.
Definition run_race (scs: list (list step)) (ops: list op) : list ev := p_close rst r_drops (race_world scs ops).
Definition rok_init (kind n: nat) : kst :=
  {| k_kind := kind; k_n := n; k_off := 0; k_errs := repeat None n; k_completed := 0; k_gone := repeat false n |}.
Definition race_ok_world (kind: nat) (scs: list (list step)) (ops: list op) : W kst :=
  p_world kst rok_poll k_drops (mk_world (rok_init kind (length scs)) false (length scs) scs) ops.
Definition run_race_ok (kind: nat) (scs: list (list step)) (ops: list op) : list ev := p_close kst k_drops (race_ok_world kind scs ops).
Definition c_drops (s: cst) := drops_all (c_n s).
Definition chain_world (scs: list (list step)) (ops: list op) : W cst :=
  p_world cst chain_poll c_drops (mk_world {| c_idx := 0; c_n := length scs |} false (length scs) scs) ops.
Definition run_chain (scs: list (list step)) (ops: list op) : list ev := p_close cst c_drops (chain_world scs ops).
Definition u_drops (_: ust) := [EDc 1; EDc 0].
Definition wait_world (stream: bool) (scs: list (list step)) (ops: list op) : W ust :=
  p_world ust wait_poll u_drops (mk_world {| u_stream := stream; u_started := false |} false 2 scs) ops.
Definition run_wait (stream: bool) (scs: list (list step)) (ops: list op) : list ev := p_close ust u_drops (wait_world stream scs ops).
