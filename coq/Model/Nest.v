From Coq Require Import List Arith Bool.
Import ListNotations.
Require Import ScanFull InstsFull Pass.

(* Nests of two levels: an outer combinator over two inner combinators over the leaves (the nests the harness builds, harness/src/main.rs build_nest).
   The model of a nest is the COMPOSITION of the single-level models with themselves - what the universality argument says in prose: an inner
   combinator is one of the scripted children of the outer one, the outer one's sub-waker (or the caller's waker it passes on) is the parent waker of
   the inner one.  Each inner combinator is run on its own history; a poll of it becomes one step of the outer model's child (answer = what it
   returned, one wake-up of "its own handle" per wake-up of the waker it was handed); a wake-up of that waker between polls becomes a fire
   operation of the outer model.  Which children a poll of the outer combinator polls is decided by the outer model, one child after the other: it
   is run with the steps known so far, the first child it polls beyond those is polled next, and the inner combinator is run at that moment - after
   whatever its sibling did to it earlier in this very poll (a leaf may wake a leaf of the other inner combinator from inside its poll).
   The result is the leaf-level trace of the nest, in the event vocabulary of the single-level models. *)

Inductive nkind := NJJ | NJT | NJR | NRJ | NMM | NCM | NZM | NGJ | NGM | NTT.
(* join of joins | a.join(b) of joins | join of races | race of joins | merge of merges | chain of merges | zip of merges | FutureGroup of joins | StreamGroup of merges
   | try_join of try_joins *)
Definition nstreams (k: nkind) : bool := match k with NMM | NCM | NZM | NGM => true | _ => false end.

Inductive nact := ALeaf (e: ev) | AWake.        (* inside an inner poll: an event of a leaf | a wake-up of the waker the inner combinator holds *)

Record nst := {
  ihs : list (list op);          (* history of each inner combinator *)
  its : list nat;                (* length of each inner trace consumed so far *)
  ips : list bool;               (* has the inner combinator been polled? *)
  oss : list (list step);        (* the steps the outer model's children have taken *)
  oh : list op; ot : nat;        (* history of the outer combinator, length of its trace consumed so far *)
  ress : list (option out);      (* last result of each inner combinator *)
  fls : list (option nat);       (* below an inner race: the first leaf that was handed the race's waker (its observational label) *)
  win : nat;                     (* race of joins: the inner combinator that resolved last *)
  npl : list nat;                (* how often each leaf has been polled: which step of its script is next *)
  drp : bool; endd : bool;       (* dropped | returned None (the harness stops polling a stream that ended) *)
  pms : list (list (nat * nat)); (* pass-through outer level: an inner combinator's numbering of the caller's wakers -> the outer numbering *)
  los : list (option nat);       (* the caller's waker of the inner combinator's own last poll *)
  outp : list ev }.

Section Nest.
  Variable selective : bool.
  Variable kind : nkind.
  Variable tuples : bool.      (* both levels are the crate's tuple impls: for join that is a different algorithm (the other combinators have one) *)
  Variable lscripts : list (list step).

  Definition half : nat := length lscripts / 2.
  Definition base (c: nat) : nat := if c =? 0 then 0 else half.
  Definition inner_of (l: nat) : nat := if l <? half then 0 else 1.
  (* handles named inside a leaf's script are global (leaf, k): within the same inner combinator they become local; a wake-up of a leaf of the other
     inner combinator is taken out of the script given to the inner model and applied to that combinator when it happens ([cross]) *)
  Definition localise (c: nat) (stp: step) : step :=
    {| fires := flat_map (fun h => match h with HSelf => [HSelf] | HOf l k => if inner_of l =? c then [HOf (l - base c) k] else [] end) (fires stp);
       answer := answer stp |}.
  Definition leaves (c: nat) : list (list step) := map (map (localise c)) (if c =? 0 then firstn half lscripts else skipn half lscripts).
  Definition run_level (scs: list (list step)) (hist: list op) : list ev :=
    match kind with
    | NJR => tr _ (race_world scs hist)
    | NTT => tr _ (join_world selective true tuples scs hist)
    | _ => if nstreams kind then tr _ (merge_world selective scs hist) else tr _ (join_world selective false tuples scs hist)
    end.
  (* does the outer level hand its caller's waker straight to the inner combinators?  (always in the non-selective build; race and chain in every build) *)
  Definition outer_passes : bool := negb selective || match kind with NRJ | NCM => true | _ => false end.
  Definition run_outer (scs: list (list step)) (hist: list op) : list ev :=
    match kind with
    | NJT => tr _ (join_world selective false true scs hist)
    | NJR => tr _ (join_world selective false tuples scs hist)
    | NRJ => tr _ (race_world scs hist)
    | NCM => tr _ (chain_world scs hist)
    | NZM => tr _ (zip_world selective scs hist)
    | NGJ | NGM => tr _ (group_world selective (nstreams kind) 0 (map (fun sc => OMut 0 0 sc) scs ++ hist))
    | _ => run_level scs hist
    end.

  Definition nemit (s: nst) (es: list ev) : nst :=
    {| ihs := ihs s; its := its s; ips := ips s; oss := oss s; oh := oh s; ot := ot s; ress := ress s; fls := fls s; win := win s; npl := npl s;
       drp := drp s; endd := endd s; pms := pms s; los := los s; outp := outp s ++ es |}.
  Definition set_inner (s: nst) (c: nat) (h: list op) (n: nat) : nst :=
    {| ihs := upd (ihs s) c h; its := upd (its s) c n; ips := ips s; oss := oss s; oh := oh s; ot := ot s; ress := ress s; fls := fls s; win := win s;
       npl := npl s; drp := drp s; endd := endd s; pms := pms s; los := los s; outp := outp s |}.
  Definition set_outer (s: nst) (h: list op) (n: nat) : nst :=
    {| ihs := ihs s; its := its s; ips := ips s; oss := oss s; oh := h; ot := n; ress := ress s; fls := fls s; win := win s; npl := npl s;
       drp := drp s; endd := endd s; pms := pms s; los := los s; outp := outp s |}.
  Definition tr_pid (s: nst) (c p: nat) : nat :=
    match find (fun q => fst q =? p) (nth c (pms s) []) with Some q => snd q | None => p end.
  Definition to_ans (o: out) : ans :=
    match o with
    | OVals _ | OOk _ => AReady (ROk 0) | OErr e => AReady (RErr e) | OSome _ (v :: _) => AItem v | OSome _ [] => AItem 0
    | ONone => AEnd | OErrs _ => AReady (RErr 0)
    end.
  (* the outer model's reaction to one wake-up of the waker child c holds, between polls: a fire operation *)
  Definition outer_fire (s: nst) (c: nat) : nst :=
    if outer_passes then s else
    let h := oh s ++ [OFire c 0] in
    let t := run_outer (oss s) h in
    let d := skipn (ot s) t in
    nemit (set_outer s h (length t)) (flat_map (fun e => match e with EW p => [EW p] | _ => [] end) d).

  (* ---- one poll of inner combinator c, inside a poll of the outer one that carries the caller's waker [opid] ---- *)
  (* a leaf wakes, from inside its poll, a leaf of the other inner combinator: that combinator reacts at once *)
  Definition cross (s: nst) (acts: list nact) (fs: list href) (l2 k2: nat) : nst * list nact * list href :=
    let b := inner_of l2 in
    let h := nth b (ihs s) [] ++ [OFire (l2 - base b) k2] in
    let t := run_level (leaves b) h in
    let d := skipn (nth b (its s) 0) t in
    let s' := set_inner s b h (length t) in
    fold_left (fun (x: nst * list nact * list href) e =>
      let '(s1, a1, f1) := x in
      match e with
      | EF j k => (s1, a1 ++ [ALeaf (EF (base b + j) k)], f1)
      | EW p => if outer_passes then (s1, a1 ++ [ALeaf (EW (tr_pid s1 b p))], f1) else (s1, a1 ++ [AWake], f1 ++ [HOf b 0])
      | _ => x
      end) d (s', acts, fs).
  (* the wake-ups a leaf's step scripts before the one the inner model has just reported ([m]), or all that are left: those of leaves of the other
     inner combinator happen now; those the inner model did not report named a handle that does not exist *)
  Fixpoint flush (c: nat) (m: href -> bool) (pending: list href) (s: nst) (acts: list nact) (fs: list href) : list href * (nst * list nact * list href) :=
    match pending with
    | [] => ([], (s, acts, fs))
    | h :: r =>
        if m h then (r, (s, acts, fs)) else
        match h with
        | HOf l2 k2 => if inner_of l2 =? c then flush c m r s acts fs else let '(s', a', f') := cross s acts fs l2 k2 in flush c m r s' a' f'
        | HSelf => flush c m r s acts fs
        end
    end.
  Record ipoll := { p_s : nst; p_acts : list nact; p_fs : list href; p_pending : list href; p_curj : nat }.
  Definition inner_poll (s: nst) (c opid: nat) : nst * list nact * step :=
    let pop := if outer_passes
               then (if nth c (ips s) false && (match nth c (los s) None with Some q => q =? opid | None => false end) then OPollSame else OPollFresh)
               else (if nth c (ips s) false then OPollSame else OPollFresh) in
    let h := nth c (ihs s) [] ++ [pop] in
    let t := run_level (leaves c) h in
    let idelta := skipn (nth c (its s) 0) t in
    let s0 := {| ihs := upd (ihs s) c h; its := upd (its s) c (length t); ips := upd (ips s) c true; oss := oss s; oh := oh s; ot := ot s; ress := ress s;
                 fls := fls s; win := win s; npl := npl s; drp := drp s; endd := endd s;
                 pms := match idelta with EB pin :: _ => upd (pms s) c ((pin, opid) :: nth c (pms s) []) | _ => pms s end;
                 los := upd (los s) c (Some opid); outp := outp s |} in
    let st := fold_left (fun (x: ipoll) e =>
      match e with
      | EC j w =>
          let l := base c + j in
          let s1 := p_s x in
          let pend := match nth_error (nth l lscripts []) (nth l (npl s1) 0) with Some stp => fires stp | None => [] end in
          let fl := match nth c (fls s1) None with Some f => f | None => l end in
          let lab := match w with
                     | WSub _ => WSub l
                     | WPar p => if outer_passes then WPar (tr_pid s1 c p) else WSub fl
                     end in
          let s2 := {| ihs := ihs s1; its := its s1; ips := ips s1; oss := oss s1; oh := oh s1; ot := ot s1; ress := ress s1;
                       fls := match w with WPar _ => if outer_passes then fls s1 else upd (fls s1) c (Some fl) | _ => fls s1 end;
                       win := win s1; npl := upd (npl s1) l (S (nth l (npl s1) 0)); drp := drp s1; endd := endd s1; pms := pms s1; los := los s1; outp := outp s1 |} in
          {| p_s := s2; p_acts := p_acts x ++ [ALeaf (EC l lab)]; p_fs := p_fs x; p_pending := pend; p_curj := j |}
      | EF j k =>
          let l2 := base c + j in
          let m := fun h => match h with
                            | HSelf => (j =? p_curj x) && (S k =? nth l2 (npl (p_s x)) 0)
                            | HOf lg kg => (lg =? l2) && (kg =? k)
                            end in
          let '(rest, (s1, a1, f1)) := flush c m (p_pending x) (p_s x) (p_acts x) (p_fs x) in
          {| p_s := s1; p_acts := a1 ++ [ALeaf (EF l2 k)]; p_fs := f1; p_pending := rest; p_curj := p_curj x |}
      | EW p =>
          if outer_passes then {| p_s := p_s x; p_acts := p_acts x ++ [ALeaf (EW (tr_pid (p_s x) c p))]; p_fs := p_fs x; p_pending := p_pending x; p_curj := p_curj x |}
          else {| p_s := p_s x; p_acts := p_acts x ++ [AWake]; p_fs := p_fs x ++ [HSelf]; p_pending := p_pending x; p_curj := p_curj x |}
      | EAns a =>
          let '(rest, (s1, a1, f1)) := flush c (fun _ => false) (p_pending x) (p_s x) (p_acts x) (p_fs x) in
          {| p_s := s1; p_acts := a1 ++ [ALeaf (EAns a)]; p_fs := f1; p_pending := rest; p_curj := p_curj x |}
      | EDc j => {| p_s := p_s x; p_acts := p_acts x ++ [ALeaf (EDc (base c + j))]; p_fs := p_fs x; p_pending := p_pending x; p_curj := p_curj x |}
      | EEndR r =>
          let s1 := p_s x in
          {| p_s := {| ihs := ihs s1; its := its s1; ips := ips s1; oss := oss s1; oh := oh s1; ot := ot s1; ress := upd (ress s1) c (Some r); fls := fls s1;
                       win := win s1; npl := npl s1; drp := drp s1; endd := endd s1; pms := pms s1; los := los s1; outp := outp s1 |};
             p_acts := p_acts x; p_fs := p_fs x; p_pending := p_pending x; p_curj := p_curj x |}
      | _ => x
      end) idelta {| p_s := s0; p_acts := []; p_fs := []; p_pending := []; p_curj := 0 |} in
    let a := match rev idelta with EEndR r :: _ => to_ans r | EEndX :: _ => APanic | _ => APend end in
    let s1 := p_s st in
    let s2 := match a with
              | AReady _ => {| ihs := ihs s1; its := its s1; ips := ips s1; oss := oss s1; oh := oh s1; ot := ot s1; ress := ress s1; fls := fls s1; win := c;
                               npl := npl s1; drp := drp s1; endd := endd s1; pms := pms s1; los := los s1; outp := outp s1 |}
              | _ => s1
              end in
    (s2, p_acts st, {| fires := if outer_passes then [] else p_fs st; answer := a |}).

  (* ---- one poll of the outer combinator ---- *)
  Definition known_step (known: list (nat * step)) (c: nat) : list step :=
    match find (fun q => fst q =? c) known with Some q => [snd q] | None => [] end.
  Definition is_known (known: list (nat * step)) (c: nat) : bool := existsb (fun q => fst q =? c) known.
  Fixpoint first_unknown (known: list (nat * step)) (d: list ev) : option nat :=
    match d with
    | [] => None
    | EC c _ :: r => if is_known known c then first_unknown known r else Some c
    | _ :: r => first_unknown known r
    end.
  (* the outer model's events for the wake-ups of a step: groups EF c h [EW p] *)
  Fixpoint groups (d: list ev) : list (option nat) * list ev :=
    match d with
    | EF _ _ :: EW p :: r => let '(g, r') := groups r in (Some p :: g, r')
    | EF _ _ :: r => let '(g, r') := groups r in (None :: g, r')
    | _ => ([], d)
    end.
  Fixpoint play (acts: list nact) (gs: list (option nat)) : list ev :=
    match acts with
    | [] => []
    | ALeaf e :: r => e :: play r gs
    | AWake :: r => match gs with Some p :: g => EW p :: play r g | None :: g => play r g | [] => play r [] end
    end.
  Definition vals_of (s: nst) (c: nat) : list nat := match nth c (ress s) None with Some (OVals vs) => vs | _ => [] end.
  Definition oks_of (s: nst) (c: nat) : list nat := match nth c (ress s) None with Some (OOk vs) => vs | _ => [] end.
  (* print: a poll of child c is replaced by what happened inside the inner combinator *)
  Fixpoint walk (fuel: nat) (actions: list (list nact)) (d: list ev) (s: nst) : nst :=
    match fuel with
    | 0 => s
    | S f =>
      match d with
      | [] => s
      | EB p :: r => walk f actions r (nemit s [EB p])
      | EC c _ :: r => let '(gs, r') := groups r in walk f actions r' (nemit s (play (nth c actions []) gs))
      | ED :: r =>
          let s1 := nemit s [ED] in
          walk f actions r {| ihs := ihs s1; its := its s1; ips := ips s1; oss := oss s1; oh := oh s1; ot := ot s1; ress := ress s1; fls := fls s1; win := win s1;
                              npl := npl s1; drp := true; endd := endd s1; pms := pms s1; los := los s1; outp := outp s1 |}
      | EEndP :: r => walk f actions r (nemit s [EEndP])
      | EEndX :: r => walk f actions r (nemit s [EEndX])
      | EEndR ONone :: r =>
          let s1 := nemit s [EEndR ONone] in
          walk f actions r {| ihs := ihs s1; its := its s1; ips := ips s1; oss := oss s1; oh := oh s1; ot := ot s1; ress := ress s1; fls := fls s1; win := win s1;
                              npl := npl s1; drp := drp s1; endd := true; pms := pms s1; los := los s1; outp := outp s1 |}
      | EEndR (OSome k vs) :: r =>
          (* a FutureGroup of joins: the member in slot k (= inner combinator k) has resolved - its output vector *)
          let vs' := match kind, k with NGJ, Some k' => vals_of s k' | _, _ => vs end in
          walk f actions r (nemit s [EEndR (OSome None vs')])
      | EEndR (OErr e) :: r => walk f actions r (nemit s [EEndR (OErr e)])       (* try_join of try_joins: the error of the inner try_join that failed *)
      | EEndR (OOk _) :: r => walk f actions r (nemit s [EEndR (OOk (oks_of s 0 ++ oks_of s 1))])
      | EEndR _ :: r =>
          walk f actions r (nemit s [EEndR (OVals (match kind with NRJ => vals_of s (win s) | _ => vals_of s 0 ++ vals_of s 1 end))])
      | _ :: r => walk f actions r s
      end
    end.
  (* the children this poll polls are determined one after the other *)
  Fixpoint settle (fuel: nat) (opid: nat) (known: list (nat * step)) (actions: list (list nact)) (s: nst) : nst :=
    let scs := map (fun c => nth c (oss s) [] ++ known_step known c) [0; 1] in
    let d := skipn (ot s) (run_outer scs (oh s)) in
    match fuel, first_unknown known d with
    | S f, Some c =>
        let '(s', acts, stp) := inner_poll s c opid in
        settle f opid (known ++ [(c, stp)]) (upd actions c acts) s'
    | _, _ =>
        let s1 := {| ihs := ihs s; its := its s; ips := ips s; oss := scs; oh := oh s; ot := ot s + length d; ress := ress s; fls := fls s; win := win s;
                     npl := npl s; drp := drp s; endd := endd s; pms := pms s; los := los s; outp := outp s |} in
        walk (S (length d)) actions d s1
    end.

  Definition nstep (s: nst) (o: op) : nst :=
    match o with
    | OPollFresh | OPollSame =>
        if endd s then s else
        (* which caller's waker does this poll carry?  (none: the poll is ignored, the combinator has finished or was dropped) *)
        match skipn (ot s) (run_outer (oss s) (oh s ++ [o])) with
        | EB opid :: _ => settle 3 opid [] [[]; []] (set_outer s (oh s ++ [o]) (ot s))
        | _ => s
        end
    | OFire l k =>
        let c := inner_of l in
        let h := nth c (ihs s) [] ++ [OFire (l - base c) k] in
        let t := run_level (leaves c) h in
        let d := skipn (nth c (its s) 0) t in
        fold_left (fun s1 e =>
          match e with
          | EO => nemit s1 [EO]
          | EF j k' => nemit s1 [EF (base c + j) k']
          | EW p => if outer_passes then nemit s1 [EW (tr_pid s1 c p)] else outer_fire s1 c
          | _ => s1
          end) d (set_inner s c h (length t))
    | ODrop =>
        let s1 := nemit s [ED] in
        let h := oh s1 ++ [ODrop] in
        let s2 := set_outer s1 h (length (run_outer (oss s1) h)) in
        let s3 := fold_left (fun s' c => let hc := nth c (ihs s') [] ++ [ODrop] in set_inner s' c hc (length (run_level (leaves c) hc))) [0; 1] s2 in
        {| ihs := ihs s3; its := its s3; ips := ips s3; oss := oss s3; oh := oh s3; ot := ot s3; ress := ress s3; fls := fls s3; win := win s3; npl := npl s3;
           drp := true; endd := endd s3; pms := pms s3; los := los s3; outp := outp s3 |}
    | OMut _ _ _ => s
    end.

  Definition ninit : nst :=
    {| ihs := [[]; []]; its := [0; 0]; ips := [false; false]; oss := [[]; []]; oh := []; ot := length (run_outer [[]; []] []);     (* a group: the two inserts *)
       ress := [None; None]; fls := [None; None]; win := 0; npl := repeat 0 (length lscripts); drp := false; endd := false;
       pms := [[]; []]; los := [None; None]; outp := [] |}.
  Definition nest_run (ops: list op) : list ev :=
    let s := fold_left nstep ops ninit in
    if drp s then outp s else outp s ++ [ED].
End Nest.
