From Coq Require Import List Arith Bool.
Import ListNotations.

(* Acceptor for the ConcurrentStream drivers at await-resolution granularity (DESIGN §6 C13).
   The model is a step function over observed events; None = "the code did something the model does not allow". *)
Inductive term := TForEach | TTryForEach | TCollect | TCollectRes (* collect::<Result<Vec<_>, E>>() *).
Record cfg := { has_map : bool; has_enum : bool; enum_first : bool (* enumerate sits before the map *);
                c_take : option nat; c_lim : option nat; c_term : term }.

Inductive resv := RUnit | ROkUnit | RErrV (e: nat) | RVec (items: list nat).
Inductive event :=
  | ESrc (item: option nat)                 (* the source yielded item j / ended *)
  | ECall (stage: nat) (j: nat) (idx: option nat)   (* closure of stage (0 map, 1 terminal) invoked for item j; idx = enumerate index seen *)
  | EDone (stage: nat) (j: nat) (err: option nat)   (* the future returned by that closure resolved *)
  | EDropWork (stage: nat) (j: nat)         (* ... or was dropped unfinished *)
  | EDropItem (j: nat)                      (* an item was dropped without having reached the terminal closure / the output *)
  | EResult (r: resv)
  | EDropTop.

(* life of one source item inside the consumer *)
Inductive wst := WQueued | WMap | WMapped | WTerm | WDone.
Inductive phase := PRun | PBack (j: nat) | PFlush | PDone | PDropped.
Record st := {
  ph : phase; src_done : bool; taken : nat; tcount : nat;
  works : list (nat * wst);         (* items pushed into the consumer and not yet forgotten *)
  residual : option nat; outputs : list nat; broke : bool;
  calls : list (nat * nat);         (* log: (stage, item) *)
}.
Definition init0 : st := {| ph := PRun; src_done := false; taken := 0; tcount := 0; works := []; residual := None; outputs := []; broke := false; calls := [] |}.
(* take(0) never drives the source: the consumer is flushed at once (behaviour after the `fix:` commit for D2) *)
Definition init (c: cfg) : st :=
  match c_take c with
  | Some 0 => {| ph := PFlush; src_done := false; taken := 0; tcount := 0; works := []; residual := None; outputs := []; broke := true; calls := [] |}
  | _ => init0
  end.

Definition upd_st (s: st) p sd tk tc w r o b c := {| ph := p; src_done := sd; taken := tk; tcount := tc; works := w; residual := r; outputs := o; broke := b; calls := c |}.
Definition set_ph s p := upd_st s p (src_done s) (taken s) (tcount s) (works s) (residual s) (outputs s) (broke s) (calls s).
Definition set_works s w := upd_st s (ph s) (src_done s) (taken s) (tcount s) w (residual s) (outputs s) (broke s) (calls s).

Definition has_term (c: cfg) := match c_term c with TCollect | TCollectRes => false | _ => true end.
Definition first_state (c: cfg) : wst := WQueued.
(* in-flight = pushed and not complete; this is what `count` counts for for_each / try_for_each *)
Definition live (w: nat * wst) := match snd w with WDone => false | _ => true end.
Definition count (s: st) := length (filter live (works s)).
Definition limit_ok (c: cfg) (s: st) : bool :=
  match c_term c, c_lim c with
  | TCollect, _ | TCollectRes, _ => true
  | _, None => true
  | _, Some l => count s <? l
  end.
Fixpoint find (j: nat) (w: list (nat * wst)) : option wst :=
  match w with [] => None | (k, x) :: r => if k =? j then Some x else find j r end.
Fixpoint setw (j: nat) (x: wst) (w: list (nat * wst)) : list (nat * wst) :=
  match w with [] => [] | (k, y) :: r => if k =? j then (k, x) :: r else (k, y) :: setw j x r end.
Definition remw (j: nat) (w: list (nat * wst)) := filter (fun p => negb (fst p =? j)) w.

(* push item j into the consumer; afterwards the take adapter may report Break *)
Definition push (c: cfg) (s: st) (j: nat) : st :=
  let s1 := set_works s (works s ++ [(j, WQueued)]) in
  match c_take c with
  | Some n => if n <=? tcount s1 then upd_st s1 PFlush (src_done s1) (taken s1) (tcount s1) (works s1) (residual s1) (outputs s1) true (calls s1) else set_ph s1 PRun
  | None => set_ph s1 PRun
  end.

(* an item whose pipeline has no closure at all (collect without map) completes invisibly *)
Definition zero_stage (c: cfg) := negb (has_map c) && negb (has_term c).

Definition tfe_blocked (c: cfg) (s: st) : bool := match c_term c, residual s with TTryForEach, Some _ => true | _, _ => false end.

Definition step (c: cfg) (s: st) (e: event) : option st :=
  match e with
  | ESrc (Some j) =>
      match ph s with
      | PRun =>
          if src_done s || negb (j =? taken s) then None else
          let s1 := upd_st s (ph s) false (S (taken s)) (S (tcount s)) (works s) (residual s) (outputs s) (broke s) (calls s) in
          if limit_ok c s1 then Some (push c s1 j) else Some (set_ph s1 (PBack j))
      | _ => None
      end
  | ESrc None => match ph s with PRun => if src_done s then None else Some (upd_st s PFlush true (taken s) (tcount s) (works s) (residual s) (outputs s) (broke s) (calls s)) | _ => None end
  | ECall stage j idx =>
      match ph s with PDone | PDropped => None | _ =>
      (* enumerate attaches the position in the source *)
      let idx_ok := match idx with Some i => has_enum c && (i =? j) | None => negb (has_enum c) || ((stage =? 0) && negb (enum_first c)) end in
      if negb idx_ok then None else
      match find j (works s), stage with
      | Some WQueued, 0 => if has_map c then Some (upd_st s (ph s) (src_done s) (taken s) (tcount s) (setw j WMap (works s)) (residual s) (outputs s) (broke s) ((0, j) :: calls s)) else None
      | Some WQueued, 1 => if negb (has_map c) && has_term c then Some (upd_st s (ph s) (src_done s) (taken s) (tcount s) (setw j WTerm (works s)) (residual s) (outputs s) (broke s) ((1, j) :: calls s)) else None
      | Some WMapped, 1 => if has_term c then Some (upd_st s (ph s) (src_done s) (taken s) (tcount s) (setw j WTerm (works s)) (residual s) (outputs s) (broke s) ((1, j) :: calls s)) else None
      | _, _ => None
      end end
  | EDone stage j err =>
      match ph s with PDone | PDropped => None | _ =>
      match find j (works s), stage with
      | Some WMap, 0 =>
          if has_term c then (match err with None => Some (set_works s (setw j WMapped (works s))) | Some _ => None end)
          else
            match err, c_term c, residual s with
            | None, TCollect, _ | None, TCollectRes, None =>
                (* collect: the mapped value is pushed to the output *)
                Some (upd_st s (ph s) (src_done s) (taken s) (tcount s) (setw j WDone (works s)) (residual s) (outputs s ++ [j]) (broke s) (calls s))
            | Some e, TCollectRes, None =>
                (* collect into Result: the first Err that is pulled is stored (the vector collected so far is discarded), the consumer reports Break *)
                Some (upd_st s PFlush (src_done s) (taken s) (tcount s) (setw j WDone (works s)) (Some e) (outputs s) true (calls s))
            | _, _, _ => None      (* nothing is pulled from the group once an error is stored *)
            end
      | Some WTerm, 1 =>
          (* try_for_each: nothing is pulled from the group once an error is stored - in-flight closure futures are dropped unfinished *)
          if tfe_blocked c s then None else
          let s1 := set_works s (setw j WDone (works s)) in
          let s2 := match err, c_term c with
                    | Some e, TTryForEach =>
                        (* the first error pulled is the residual; the consumer reports Break *)
                        match residual s1 with
                        | None => upd_st s1 PFlush (src_done s1) (taken s1) (tcount s1) (works s1) (Some e) (outputs s1) true (calls s1)
                        | Some _ => s1
                        end
                    | _, _ => s1
                    end in
          (* back-pressure: a waiting item is pushed as soon as there is room, unless the consumer broke *)
          match ph s2 with
          | PBack j' => if limit_ok c s2 then Some (push c s2 j') else Some s2
          | _ => Some s2
          end
      | _, _ => None
      end end
  | EDropWork stage j =>
      (* in-flight work is only ever dropped once the outcome is decided (error) or the whole operation is dropped *)
      match ph s with
      | PDropped | PFlush =>
          match ph s, residual s with
          | PFlush, None => None
          | _, _ => match find j (works s), stage with
                    | Some WMap, 0 | Some WTerm, 1 => Some (set_works s (remw j (works s)))
                    | _, _ => None
                    end
          end
      | _ => None
      end
  | EDropItem j =>
      (* an item is only ever dropped unprocessed once the outcome is decided (a recorded error) or the whole operation is dropped *)
      match ph s with
      | PDropped | PFlush =>
          match ph s, residual s with
          | PFlush, None => None
          | _, _ =>
            match find j (works s) with
            | Some WQueued | Some WMapped => Some (set_works s (remw j (works s)))
            | None => (* the item waiting in `send` when the consumer broke / the operation was dropped *)
                Some s
            | Some WDone => (* a collected output discarded together with the dropped operation, or when an Err replaces the collected vector *)
                match c_term c, ph s with
                | TCollect, PDropped | TCollectRes, PDropped | TCollectRes, PFlush => Some (set_works s (remw j (works s)))
                | _, _ => None
                end
            | _ => None
            end
          end
      | _ => None
      end
  | EResult r =>
      match ph s with
      | PFlush =>
          let alive := filter live (works s) in
          match c_term c, r with
          | TForEach, RUnit => if (length alive =? 0) then Some (set_ph s PDone) else None
          | TTryForEach, ROkUnit => match residual s with None => if (length alive =? 0) then Some (set_ph s PDone) else None | Some _ => None end
          | TTryForEach, RErrV e => match residual s with Some e' => if e =? e' then Some (set_ph s PDone) else None | None => None end
          | TCollectRes, RErrV e => match residual s with Some e' => if e =? e' then Some (set_ph s PDone) else None | None => None end
          | TCollectRes, RVec items =>
              match residual s with
              | Some _ => None
              | None =>
                let pushed := map fst (works s) in
                if (length items =? length pushed) && forallb (fun j => existsb (fun k => k =? j) items) pushed
                   && forallb (fun w => match snd w with WDone => true | WQueued => zero_stage c | _ => false end) (works s)
                then Some (set_ph s PDone) else None
              end
          | TCollect, RVec items =>
              (* every pushed item is in the output exactly once (order = completion order, not checked here) *)
              let pushed := map fst (works s) in
              if (length items =? length pushed) && forallb (fun j => existsb (fun k => k =? j) items) pushed
                 && forallb (fun w => match snd w with WDone => true | WQueued => zero_stage c | _ => false end) (works s)
              then Some (set_ph s PDone) else None
          | _, _ => None
          end
      | _ => None
      end
  | EDropTop => match ph s with PDone => Some s | PDropped => Some s | _ => Some (set_ph s PDropped) end
  end.

Fixpoint run (c: cfg) (s: st) (es: list event) (k: nat) : (st * option nat) :=   (* Some k = rejected at event k *)
  match es with
  | [] => (s, None)
  | e :: r => match step c s e with Some s' => run c s' r (S k) | None => (s, Some k) end
  end.

(* acceptance condition at the end of a history (a trace of the crate always ends with the drop of the operation's future):
   no closure future is still in flight *)
Definition settled (s: st) : bool := forallb (fun w => match snd w with WMap | WTerm => false | _ => true end) (works s).

(* properties as monitors over the final acceptor state (the theorems-to-be of C13-C15) *)
Definition max_live_ok (c: cfg) (s: st) := limit_ok c s || match c_lim c with Some l => count s <=? l | None => true end.

