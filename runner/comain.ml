open Costream
let rec nat_of_int n = if n <= 0 then O else S (nat_of_int (n - 1))
let rec int_of_nat = function O -> 0 | S n -> 1 + int_of_nat n
let split c s = String.split_on_char c s
let starts p s = String.length s >= String.length p && String.sub s 0 (String.length p) = p
let after p s = String.sub s (String.length p) (String.length s - String.length p)
let contains s sub = try ignore (Str.search_forward (Str.regexp_string sub) s 0); true with Not_found -> false
let idx_of s sub = try Str.search_forward (Str.regexp_string sub) s 0 with Not_found -> max_int
let show_event = function
  | ESrc (Some j) -> Printf.sprintf "Src(%d)" (int_of_nat j) | ESrc None -> "Src(end)"
  | ECall (st, j, _) -> Printf.sprintf "Call(%d,%d)" (int_of_nat st) (int_of_nat j)
  | EDone (st, j, e) -> Printf.sprintf "Done(%d,%d,%s)" (int_of_nat st) (int_of_nat j) (match e with Some e -> string_of_int (int_of_nat e) | None -> "ok")
  | EDropWork (st, j) -> Printf.sprintf "DropWork(%d,%d)" (int_of_nat st) (int_of_nat j)
  | EDropItem j -> Printf.sprintf "DropItem(%d)" (int_of_nat j)
  | EResult _ -> "Result" | EDropTop -> "DropTop"
let () =
  let cases = open_in Sys.argv.(1) and traces = open_in Sys.argv.(2) in
  let acc = ref 0 and rej = ref 0 and skip = ref 0 in
  (try while true do
    let case = input_line cases in let trace = input_line traces in
    let head = List.hd (Str.split (Str.regexp_string " | ") case) in
    let hp = Array.of_list (split ' ' head) in
    let id = hp.(0) in
    let spec = Array.of_list (split ':' hp.(1)) in
    let stack = spec.(1) and term = spec.(2) in
    (* an adapter applied twice lists both arguments (nearer the source first): the smaller take and the outer limit are in force *)
    let ints s = List.map int_of_string (split ',' s) in
    let take = (try Some (List.fold_left min max_int (ints (after "take=" hp.(2)))) with _ -> None) in
    let lim = (try let l = List.hd (List.rev (ints (after "lim=" hp.(3)))) in if l = 0 then None else Some l with _ -> None) in
    let n = int_of_string (after "n=" hp.(4)) in
    let cfg = { has_map = contains stack "map"; has_enum = contains stack "enum"; enum_first = idx_of stack "enum" < idx_of stack "map";
                c_take = (if contains stack "take" then (match take with Some t -> Some (nat_of_int t) | None -> None) else None);
                c_lim = (if contains stack "lim" then (match lim with Some l -> Some (nat_of_int l) | None -> None) else None);
                c_term = (match term with "fe" -> TForEach | "tfe" -> TTryForEach | "rcol" -> TCollectRes | _ -> TCollect) } in
    let toks = List.tl (List.filter (fun s -> s <> "") (split ' ' trace)) in
    let cur = ref (-1) and panic = ref false in
    let evs = ref [] in
    let add e = evs := e :: !evs in
    let idx_arg a = (* "Cm.3(1:3)" -> Some 1 ; "Cm.3(3)" -> None *)
      let l = String.index a '(' in let inner = String.sub a (l + 1) (String.length a - l - 2) in
      match split ':' inner with [i; _] -> Some (nat_of_int (int_of_string i)) | _ -> None in
    let callj a = let d = String.index a '.' and l = String.index a '(' in nat_of_int (int_of_string (String.sub a (d + 1) (l - d - 1))) in
    List.iter (fun t ->
      if starts "c" t && String.contains t ':' && not (starts "Cm" t || starts "Ct" t) then cur := int_of_string (String.sub t 1 (String.index t ':' - 1))
      else if starts "Cm." t then add (ECall (nat_of_int 0, callj t, idx_arg t))
      else if starts "Ct." t then add (ECall (nat_of_int 1, callj t, idx_arg t))
      else if starts "=I" t then add (ESrc (Some (nat_of_int (int_of_string (after "=I" t)))))
      else if t = "=E" then add (ESrc None)
      else if t = "=R" || starts "=F" t then begin
        let err = if starts "=F" t then Some (nat_of_int (int_of_string (after "=F" t))) else None in
        if !cur >= 1 && !cur <= n then add (EDone (nat_of_int 1, nat_of_int (!cur - 1), err))
        else if !cur > n then add (EDone (nat_of_int 0, nat_of_int (!cur - 1 - n), (if term = "rcol" then err else None))) end
      else if t = "=X" || t = "E:X" then panic := true
      else if starts "D" t then begin let i = int_of_string (after "D" t) in
        if i >= 1 && i <= n then add (EDropWork (nat_of_int 1, nat_of_int (i - 1))) else if i > n then add (EDropWork (nat_of_int 0, nat_of_int (i - 1 - n))) end
      else if starts "V" t then add (EDropItem (nat_of_int (int_of_string (after "V" t))))
      else if starts "E:R[" t then begin
        let inner = String.sub t 4 (String.length t - 5) in
        if term = "fe" then add (EResult RUnit)
        else add (EResult (RVec (List.map (fun x -> match split ':' x with [_; v] -> nat_of_int (int_of_string v) | _ -> nat_of_int (int_of_string x)) (List.filter (fun x -> x <> "") (split ',' inner))))) end
      else if t = "E:O[]" then add (EResult ROkUnit)
      else if starts "E:F" t then add (EResult (RErrV (nat_of_int (int_of_string (after "E:F" t)))))
      else if t = "d" then add EDropTop
      else ()) toks;
    if !panic then incr skip else begin
      let evl = List.rev !evs in
      match run cfg (init cfg) evl O with
      | (sfin, None) ->
          (* acceptance at the end of the history: the trace ends with the drop of the operation's future; no closure future may still be in flight
             (Properties C13_no_closure_future_outlives_the_operation, C14_in_flight_futures_dropped_with_the_operation) *)
          if settled sfin then incr acc
          else begin incr rej; Printf.printf "%s REJECT at %d: a closure future is still in flight at the end of the history   [%s]\n" id (List.length evl)
                       (String.concat " " (List.map show_event evl)) end
      | (_, Some k) -> incr rej; let k = int_of_nat k in
          Printf.printf "%s REJECT at %d: %s   [%s]\n" id k (show_event (List.nth evl k)) (String.concat " " (List.map show_event evl))
    end
  done with End_of_file -> ());
  Printf.printf "accepted=%d rejected=%d skipped(panic)=%d\n" !acc !rej !skip
