open Mon
let rec nat_of_int n = if n <= 0 then O else S (nat_of_int (n - 1))
let num_from s i = nat_of_int (int_of_string (String.sub s i (String.length s - i)))
let ints s = if s = "" then [] else List.map (fun x -> nat_of_int (int_of_string x)) (String.split_on_char ',' s)
let starts p s = String.length s >= String.length p && String.sub s 0 (String.length p) = p
let inside s = let i = String.index s '[' in String.sub s (i + 1) (String.length s - i - 2)
(* inverse of the runner's printer: one token -> one event *)
let parse_tok (t: string) : ev option =
  if t = "" then None else
  if t = "o" then Some EO else if t = "d" then Some ED else if t = "T" then Some (EBool true) else if t = "F" then Some (EBool false) else
  if t = "E:P" then Some EEndP else if t = "E:X" then Some EEndX else if t = "E:N" then Some (EEndR ONone) else
  if starts "E:R[" t then Some (EEndR (OVals (ints (inside t)))) else
  if starts "E:O[" t then Some (EEndR (OOk (ints (inside t)))) else
  if starts "E:G[" t then Some (EEndR (OErrs (ints (inside t)))) else
  if starts "E:F" t then Some (EEndR (OErr (num_from t 3))) else
  if starts "E:S@" t then (let i = String.index t '[' in Some (EEndR (OSome (Some (nat_of_int (int_of_string (String.sub t 4 (i - 4)))), ints (inside t))))) else
  if starts "E:S[" t then Some (EEndR (OSome (None, ints (inside t)))) else
  if t = "=P" then Some (EAns APend) else if t = "=E" then Some (EAns AEnd) else if t = "=X" then Some (EAns APanic) else
  if starts "=R" t then Some (EAns (AReady (ROk (num_from t 2)))) else if starts "=F" t then Some (EAns (AReady (RErr (num_from t 2)))) else
  if starts "=I" t then Some (EAns (AItem (num_from t 2))) else
  match t.[0] with
  | 'B' -> Some (EB (num_from t 1)) | 'W' -> Some (EW (num_from t 1)) | 'D' -> Some (EDc (num_from t 1)) | 'V' -> Some (EV (num_from t 1))
  | 'K' -> Some (EK (num_from t 1)) | 'N' -> Some (EN (num_from t 1))
  | 'c' -> let i = String.index t ':' in
           let m = nat_of_int (int_of_string (String.sub t 1 (i - 1))) in
           let w = if t.[i + 1] = 'S' then WSub (num_from t (i + 2)) else WPar (num_from t (i + 2)) in Some (EC (m, w))
  | 'f' -> (match String.split_on_char '.' (String.sub t 1 (String.length t - 1)) with [c; k] -> Some (EF (nat_of_int (int_of_string c), nat_of_int (int_of_string k))) | _ -> None)
  | _ -> None
let noise = function EB _ | EF _ | EW _ | EO -> true | _ -> false
let () =
  (* usage: monitor <n-from-case-file> : reads "id tok tok ..." lines paired with case lines "id comb cont n=K ..." on fd 3? simpler: n is given per line as first field *)
  let bad = ref 0 and tot = ref 0 in
  (try while true do
    let line = input_line stdin in
    match String.split_on_char ' ' line with
    | nstr :: _id :: toks ->
        let n = nat_of_int (int_of_string nstr) in
        let evs = List.filter (fun e -> not (noise e)) (List.filter_map parse_tok toks) in
        incr tot; if not (bal_b n evs) then (incr bad; if !bad <= 3 then print_endline ("MONITOR-FAIL " ^ line))
    | _ -> ()
  done with End_of_file -> ());
  Printf.printf "traces=%d monitor_failures=%d\n" !tot !bad
