open Model
(* unary numerals, memoised and shared (value tags run into the thousands; one numeral per token would dominate the run time) *)
let nat_memo : (int, nat) Hashtbl.t = Hashtbl.create 1024
let nat_of_int n =
  let rec up k acc = if k > n then acc else (let v = S acc in Hashtbl.replace nat_memo k v; up (k + 1) v) in
  if n <= 0 then O else
  match Hashtbl.find_opt nat_memo n with
  | Some v -> v
  | None ->
      let rec base k = if k <= 0 then (0, O) else (match Hashtbl.find_opt nat_memo k with Some v -> (k, v) | None -> base (k - 1)) in
      let (k0, v0) = base (n - 1) in up (k0 + 1) v0
let rec int_of_nat = function O -> 0 | S n -> 1 + int_of_nat n
let split c s = String.split_on_char c s
let num s = nat_of_int (int_of_string (String.sub s 1 (String.length s - 1)))
let parse_href h = if h = "s" then HSelf else match split '.' h with [c; k] -> HOf (nat_of_int (int_of_string c), nat_of_int (int_of_string k)) | _ -> failwith "href"
let parse_ans a = match a.[0] with
  | 'P' -> APend | 'R' -> AReady (ROk (num a)) | 'F' -> AReady (RErr (num a)) | 'I' -> AItem (num a) | 'E' -> AEnd | 'X' -> APanic | _ -> failwith "ans"
let parse_step s =
  if String.length s > 0 && s.[0] = '!' then
    let i = String.index s ':' in
    let f = String.sub s 1 (i - 1) and a = String.sub s (i + 1) (String.length s - i - 1) in
    { fires = List.map parse_href (split '+' f); answer = parse_ans a }
  else { fires = []; answer = parse_ans s }
let parse_script s = if s = "" then [] else List.map parse_step (split ',' s)
let starts p s = String.length s >= String.length p && String.sub s 0 (String.length p) = p
let after p s = String.sub s (String.length p) (String.length s - String.length p)
let ext_born : (int, unit) Hashtbl.t = Hashtbl.create 16   (* ordinals of members inserted through Extend::extend: their keys are not reported *)
let n_inserted = ref 0
let rec parse_ops o =
  if starts "ext(" o then begin
    (* Extend::extend = reserve(len of the iterator) followed by one insert per element *)
    let inner = after "ext(" o in let inner = String.sub inner 0 (String.length inner - 1) in
    let scs = split ';' inner in
    OMut (nat_of_int 2, nat_of_int (List.length scs), []) ::
    List.map (fun sc -> Hashtbl.replace ext_born !n_inserted (); incr n_inserted; OMut (nat_of_int 0, O, parse_script sc)) scs
  end else if starts "iter(" o then begin
    (* FromIterator (first operation, empty group): FutureGroup = new + extend (reserve + inserts); StreamGroup = with_capacity(len) + inserts,
       which on an empty group of capacity 0 is the same state as reserve(len) *)
    let inner = after "iter(" o in let inner = String.sub inner 0 (String.length inner - 1) in
    let scs = split ';' inner in
    OMut (nat_of_int 2, nat_of_int (List.length scs), []) ::
    List.map (fun sc -> Hashtbl.replace ext_born !n_inserted (); incr n_inserted; OMut (nat_of_int 0, O, parse_script sc)) scs
  end else begin
    (if starts "ins(" o then incr n_inserted);
    [parse_op o]
  end
and parse_op o =
  if starts "ins(" o then (let sc = after "ins(" o in let sc = String.sub sc 0 (String.length sc - 1) in OMut (nat_of_int 0, O, parse_script sc))
  else if starts "rm" o then OMut (nat_of_int 1, nat_of_int (int_of_string (after "rm" o)), [])
  else if starts "rsv" o then OMut (nat_of_int 2, nat_of_int (int_of_string (after "rsv" o)), [])
  else if o = "len" then OMut (nat_of_int 3, O, [])
  else if starts "has" o then OMut (nat_of_int 4, nat_of_int (int_of_string (after "has" o)), [])
  else if o = "cap" then OMut (nat_of_int 5, O, [])
  else if o = "emp" then OMut (nat_of_int 6, O, [])
  else match o.[0] with
  | 'p' -> OPollFresh | 'q' -> OPollSame | 'd' -> ODrop
  | 'f' -> (match split '.' (String.sub o 1 (String.length o - 1)) with [c; k] -> OFire (nat_of_int (int_of_string c), nat_of_int (int_of_string k)) | _ -> failwith "fire")
  | _ -> failwith "op"
let ints vs = String.concat "," (List.map (fun v -> string_of_int (int_of_nat v)) vs)
let show_ans = function APend -> "=P" | AReady (ROk v) -> Printf.sprintf "=R%d" (int_of_nat v) | AReady (RErr e) -> Printf.sprintf "=F%d" (int_of_nat e)
  | AItem v -> Printf.sprintf "=I%d" (int_of_nat v) | AEnd -> "=E" | APanic -> "=X"
let keyed = ref false
let first_seen : (int, int) Hashtbl.t = Hashtbl.create 16
let show_out = function OErrs es -> "E:G[" ^ ints es ^ "]" | OVals vs -> "E:R[" ^ ints vs ^ "]" | OOk vs -> "E:O[" ^ ints vs ^ "]" | OErr e -> Printf.sprintf "E:F%d" (int_of_nat e)
  | OSome (Some k, vs) when !keyed -> Printf.sprintf "E:S@%d[%s]" (int_of_nat k) (ints vs)
  | OSome (_, vs) -> "E:S[" ^ ints vs ^ "]" | ONone -> "E:N"
let show_ev = function
  | EB p -> Printf.sprintf "B%d" (int_of_nat p)
  | EC (c, WSub w) ->
      (* observational label of a sub-waker: the first member that was ever handed it *)
      let slot = int_of_nat w and m = int_of_nat c in
      let first = (match Hashtbl.find_opt first_seen slot with Some f -> f | None -> Hashtbl.add first_seen slot m; m) in
      Printf.sprintf "c%d:S%d" m first
  | EC (c, WPar w) -> Printf.sprintf "c%d:P%d" (int_of_nat c) (int_of_nat w)
  | EF (c, k) -> Printf.sprintf "f%d.%d" (int_of_nat c) (int_of_nat k)
  | EW p -> Printf.sprintf "W%d" (int_of_nat p)
  | EAns a -> show_ans a
  | EEndP -> "E:P" | EEndX -> "E:X" | EEndR o -> show_out o
  | EO -> "o" | ED -> "d" | EDc c -> Printf.sprintf "D%d" (int_of_nat c) | EV v -> Printf.sprintf "V%d" (int_of_nat v)
  | EK k -> Printf.sprintf "K%d" (int_of_nat k) | EN n -> Printf.sprintf "N%d" (int_of_nat n) | EBool b -> if b then "T" else "F"
(* ---- nests: an outer combinator over two inner combinators over the leaves.  Their model is the composition of the single-level models with
   themselves, defined in Gallina (coq/Model/Nest.v, nest_run) and extracted with the rest; its leaf-level events carry their observational
   labels already ---- *)
let show_nev = function EC (c, WSub w) -> Printf.sprintf "c%d:S%d" (int_of_nat c) (int_of_nat w) | e -> show_ev e
let nkind_of = function "nest_jj" -> Some NJJ | "nest_jt" -> Some NJT | "nest_jr" -> Some NJR | "nest_rj" -> Some NRJ | "nest_mm" -> Some NMM
  | "nest_cm" -> Some NCM | "nest_zm" -> Some NZM | "nest_gj" -> Some NGJ | "nest_gm" -> Some NGM | "nest_tt" -> Some NTT | _ -> None
let () =
  let selective = Sys.argv.(1) = "std" in
  try while true do
    let line = input_line stdin in
    if String.trim line <> "" then begin
      let bar = Str.search_forward (Str.regexp_string " | ") line 0 in
      let head = String.sub line 0 bar and ops = String.sub line (bar + 3) (String.length line - bar - 3) in
      match split ' ' head with
      | id :: comb :: cont :: nstr :: rest ->
        let n = int_of_string (String.sub nstr 2 (String.length nstr - 2)) in
        let scripts = if n = 0 || cont = "group" then [] else List.map parse_script (split ';' (match rest with s :: _ -> s | [] -> "")) in
        Hashtbl.reset ext_born; n_inserted := 0;
        let ops = List.concat_map parse_ops (List.filter (fun s -> s <> "") (split ' ' ops)) in
        (* the arity-0 tuple impls are separate hand-written impls: their behaviour is the slice algorithm at n = 0 *)
        let tuple = ((cont = "tuple" || cont = "ext") && n > 0) in
        keyed := (comb = "fgroup_keyed" || comb = "sgroup_keyed"); Hashtbl.reset first_seen;
        let tr = match comb with
          | "join" -> run_join selective false tuple scripts ops
          | "try_join" -> run_join selective true tuple scripts ops
          | "merge" -> run_merge selective scripts ops
          | "zip" -> run_zip selective scripts ops
          | "race" -> run_race scripts ops
          | "race_ok" -> run_race_ok (nat_of_int (if cont = "array" then 0 else if cont = "tuple" then 1 else 2)) scripts ops
          | "chain" -> run_chain scripts ops
          | "wait_fut" -> run_wait false scripts ops
          | "wait_stream" -> run_wait true scripts ops
          | "fgroup" | "fgroup_keyed" -> run_group selective false (nat_of_int n) ops
          | "sgroup" | "sgroup_keyed" -> run_group selective true (nat_of_int n) ops
          | "nest_jj" | "nest_mm" | "nest_jt" | "nest_gj" | "nest_gm" | "nest_jr" | "nest_rj" | "nest_cm" | "nest_zm" | "nest_tt" -> []
          | _ -> failwith "comb" in
        (* the keys of members born through extend are not observable: their K tokens are printed as a bare `k` (the i-th EK belongs to the i-th insert) *)
        let nk = ref 0 in
        let toks = List.map (fun e -> match e with EK _ -> let i = !nk in incr nk; if Hashtbl.mem ext_born i then "k" else show_ev e | _ -> show_ev e) tr in
        let toks = (match nkind_of comb with
          | Some k -> List.map show_nev (nest_run selective k (cont = "nestt") scripts ops)
          | None -> toks) in
        print_endline (String.concat " " (id :: toks))
      | _ -> failwith "case"
    end
  done with End_of_file -> ()
