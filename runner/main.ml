open Model
let rec nat_of_int n = if n <= 0 then O else S (nat_of_int (n - 1))
let rec int_of_nat = function O -> 0 | S n -> 1 + int_of_nat n
let split c s = String.split_on_char c s
let num s = nat_of_int (int_of_string (String.sub s 1 (String.length s - 1)))
let parse_href h = if h = "s" then HSelf else match split '.' h with [c; k] -> HOf (nat_of_int (int_of_string c), nat_of_int (int_of_string k)) | _ -> failwith "href"
let parse_ans a = match a.[0] with
  | 'P' -> APend | 'R' -> AReady (ROk (num a)) | 'F' -> AReady (RErr (num a)) | 'I' -> AItem (num a) | 'E' -> AEnd | 'X' -> APanic | _ -> failwith "ans"
let parse_step s =
  if String.length s > 0 && s.[0] = '!' then
    let i = String.index s ':' in
    let f = String.sub s 1 (i - 1) and a = String.sub s (i + 1) (String.length s - i - 1) in
    { fires = List.map parse_href (split '+' f); answer = parse_ans a }
  else { fires = []; answer = parse_ans s }
let parse_script s = if s = "" then [] else List.map parse_step (split ',' s)
let starts p s = String.length s >= String.length p && String.sub s 0 (String.length p) = p
let after p s = String.sub s (String.length p) (String.length s - String.length p)
let ext_born : (int, unit) Hashtbl.t = Hashtbl.create 16   (* ordinals of members inserted through Extend::extend: their keys are not reported *)
let n_inserted = ref 0
let rec parse_ops o =
  if starts "ext(" o then begin
    (* Extend::extend = reserve(len of the iterator) followed by one insert per element *)
    let inner = after "ext(" o in let inner = String.sub inner 0 (String.length inner - 1) in
    let scs = split ';' inner in
    OMut (nat_of_int 2, nat_of_int (List.length scs), []) ::
    List.map (fun sc -> Hashtbl.replace ext_born !n_inserted (); incr n_inserted; OMut (nat_of_int 0, O, parse_script sc)) scs
  end else if starts "iter(" o then begin
    (* FromIterator (first operation, empty group): FutureGroup = new + extend (reserve + inserts); StreamGroup = with_capacity(len) + inserts,
       which on an empty group of capacity 0 is the same state as reserve(len) *)
    let inner = after "iter(" o in let inner = String.sub inner 0 (String.length inner - 1) in
    let scs = split ';' inner in
    OMut (nat_of_int 2, nat_of_int (List.length scs), []) ::
    List.map (fun sc -> Hashtbl.replace ext_born !n_inserted (); incr n_inserted; OMut (nat_of_int 0, O, parse_script sc)) scs
  end else begin
    (if starts "ins(" o then incr n_inserted);
    [parse_op o]
  end
and parse_op o =
  if starts "ins(" o then (let sc = after "ins(" o in let sc = String.sub sc 0 (String.length sc - 1) in OMut (nat_of_int 0, O, parse_script sc))
  else if starts "rm" o then OMut (nat_of_int 1, nat_of_int (int_of_string (after "rm" o)), [])
  else if starts "rsv" o then OMut (nat_of_int 2, nat_of_int (int_of_string (after "rsv" o)), [])
  else if o = "len" then OMut (nat_of_int 3, O, [])
  else if starts "has" o then OMut (nat_of_int 4, nat_of_int (int_of_string (after "has" o)), [])
  else if o = "cap" then OMut (nat_of_int 5, O, [])
  else if o = "emp" then OMut (nat_of_int 6, O, [])
  else match o.[0] with
  | 'p' -> OPollFresh | 'q' -> OPollSame | 'd' -> ODrop
  | 'f' -> (match split '.' (String.sub o 1 (String.length o - 1)) with [c; k] -> OFire (nat_of_int (int_of_string c), nat_of_int (int_of_string k)) | _ -> failwith "fire")
  | _ -> failwith "op"
let ints vs = String.concat "," (List.map (fun v -> string_of_int (int_of_nat v)) vs)
let show_ans = function APend -> "=P" | AReady (ROk v) -> Printf.sprintf "=R%d" (int_of_nat v) | AReady (RErr e) -> Printf.sprintf "=F%d" (int_of_nat e)
  | AItem v -> Printf.sprintf "=I%d" (int_of_nat v) | AEnd -> "=E" | APanic -> "=X"
let keyed = ref false
let first_seen : (int, int) Hashtbl.t = Hashtbl.create 16
let show_out = function OErrs es -> "E:G[" ^ ints es ^ "]" | OVals vs -> "E:R[" ^ ints vs ^ "]" | OOk vs -> "E:O[" ^ ints vs ^ "]" | OErr e -> Printf.sprintf "E:F%d" (int_of_nat e)
  | OSome (Some k, vs) when !keyed -> Printf.sprintf "E:S@%d[%s]" (int_of_nat k) (ints vs)
  | OSome (_, vs) -> "E:S[" ^ ints vs ^ "]" | ONone -> "E:N"
let show_ev = function
  | EB p -> Printf.sprintf "B%d" (int_of_nat p)
  | EC (c, WSub w) ->
      (* observational label of a sub-waker: the first member that was ever handed it *)
      let slot = int_of_nat w and m = int_of_nat c in
      let first = (match Hashtbl.find_opt first_seen slot with Some f -> f | None -> Hashtbl.add first_seen slot m; m) in
      Printf.sprintf "c%d:S%d" m first
  | EC (c, WPar w) -> Printf.sprintf "c%d:P%d" (int_of_nat c) (int_of_nat w)
  | EF (c, k) -> Printf.sprintf "f%d.%d" (int_of_nat c) (int_of_nat k)
  | EW p -> Printf.sprintf "W%d" (int_of_nat p)
  | EAns a -> show_ans a
  | EEndP -> "E:P" | EEndX -> "E:X" | EEndR o -> show_out o
  | EO -> "o" | ED -> "d" | EDc c -> Printf.sprintf "D%d" (int_of_nat c) | EV v -> Printf.sprintf "V%d" (int_of_nat v)
  | EK k -> Printf.sprintf "K%d" (int_of_nat k) | EN n -> Printf.sprintf "N%d" (int_of_nat n) | EBool b -> if b then "T" else "F"
(* ---- nests (std build): an outer join / merge over two inner joins / merges over the leaves.  There is no Coq model of a nest; this is the
   composition the universality argument describes, carried out with the extracted model on both levels: the inner combinator is run on its own
   history, each of its polls becomes one scripted step of the outer model's child (answer = what it returned, fires = one self-wake per wake-up
   of the waker it was handed), each wake-up of that waker between polls becomes a fire operation of the outer model.  Worlds are recomputed from
   (scripts, history), the model being a pure function of them. ---- *)
let rec drop_n n l = if n <= 0 then l else match l with [] -> [] | _ :: r -> drop_n (n - 1) r
let nest_trace (selective: bool) (kind: string) (scripts: step list list) (ops: op list) : string list =
  let nleaf = List.length scripts in
  let half = nleaf / 2 in
  let base c = if c = 0 then 0 else half in
  let inner_of l = if l < half then 0 else 1 in
  (* handles named inside a leaf's script are global (leaf, k): within the same inner combinator they become local; a wake-up of a leaf of the
     OTHER inner combinator is taken out of the script given to the inner model and applied to that combinator when it happens (`cross` below) *)
  let localise c (stp: step) = { stp with fires = List.filter_map (fun h -> match h with
      | HSelf -> Some HSelf
      | HOf (l, k) -> let l = int_of_nat l in if inner_of l = c then Some (HOf (nat_of_int (l - base c), k)) else None) stp.fires } in
  let leaves c = List.map (List.map (localise c)) (if c = 0 then List.filteri (fun i _ -> i < half) scripts else List.filteri (fun i _ -> i >= half) scripts) in
  let streams = (kind = "nest_mm" || kind = "nest_gm" || kind = "nest_cm" || kind = "nest_zm") in
  (* inner level: Vec join, Vec merge, or (nest_jr) Vec race, which hands its caller's waker straight to its children *)
  let run_level scs hist =
    if kind = "nest_jr" then tr (race_world scs hist)
    else if streams then tr (merge_world selective scs hist) else tr (join_world selective false false scs hist) in
  (* does the outer level hand its caller's waker straight to the inner combinators?  (always in the alloc build; race and chain in every build) *)
  let outer_passes = (not selective) || kind = "nest_rj" || kind = "nest_cm" in
  (* the outer level of nest_jt is the two-argument trait method a.join(b): the tuple algorithm; of nest_gj / nest_gm a group into which the two
     inner combinators were inserted at construction (a member's script is handed over at its insert) *)
  let run_outer scs hist =
    if kind = "nest_jt" then tr (join_world selective false true scs hist)
    else if kind = "nest_jr" then tr (join_world selective false false scs hist)
    else if kind = "nest_rj" then tr (race_world scs hist)
    else if kind = "nest_cm" then tr (chain_world scs hist)
    else if kind = "nest_zm" then tr (zip_world selective scs hist)
    else if kind = "nest_gj" || kind = "nest_gm" then
      tr (group_world selective streams O (List.map (fun sc -> OMut (O, O, sc)) scs @ hist))
    else run_level scs hist in
  let otr = ref (List.length (run_outer [[]; []] [])) in       (* a group: the events of the two inserts *)
  let ihist = [| []; [] |] and itr = [| 0; 0 |] and ipolled = [| false; false |] in
  let oscs = [| []; [] |] and ohist = ref [] in
  let out = ref [] in
  let emit s = out := s :: !out in
  let to_ans o = (match o with OVals _ | OOk _ -> AReady (ROk O) | OErr e -> AReady (RErr e) | OSome (_, v :: _) -> AItem v | OSome (_, []) -> AItem O | ONone -> AEnd | OErrs _ -> AReady (RErr O)) in
  (* the outer model's reaction to one wake-up of the waker child c holds: a fire operation between polls *)
  let outer_fire c =
    if not outer_passes then begin
    ohist := !ohist @ [OFire (nat_of_int c, O)];
    let t = run_outer [oscs.(0); oscs.(1)] !ohist in
    let d = drop_n !otr t in otr := List.length t;
    List.iter (fun e -> match e with EW p -> emit (Printf.sprintf "W%d" (int_of_nat p)) | _ -> ()) d end in
  let results = ref [] in
  let first_leaf = [| -1; -1 |] and winner = ref 0 in
  let npolls = Array.make (max nleaf 1) 0 in       (* how often each leaf has been polled: which step of its script is next *)
  let dropped = ref false in
  let ended = ref false in       (* a group is never finished for the model (it can be refilled); the harness stops polling a nest that returned None *)
  (* non-selective build: an inner combinator numbers the caller's wakers it has seen itself; pmap.(c) translates its numbers into the outer ones *)
  let pmap = [| Hashtbl.create 8; Hashtbl.create 8 |] and last_opid = [| -1; -1 |] in
  let tr_pid c p = (match Hashtbl.find_opt pmap.(c) (int_of_nat p) with Some q -> q | None -> int_of_nat p) in
  List.iter (fun o -> match o with
    | (OPollFresh | OPollSame) when !ended -> ()
    | OPollFresh | OPollSame ->
        (* which parent waker does this poll of the outer combinator carry?  (none: the poll is ignored, the combinator has finished or was dropped) *)
        let opid = (match drop_n !otr (run_outer [oscs.(0); oscs.(1)] (!ohist @ [o])) with EB p :: _ -> int_of_nat p | _ -> -1) in
        if opid >= 0 then begin
          ohist := !ohist @ [o];
          (* The children this poll of the outer combinator polls are determined one after the other: the outer model is run with the steps known so
             far; the first child it polls beyond those is polled next in reality too (everything before that point is exact), so the inner
             combinator is run NOW - after whatever its siblings did to it earlier in this very poll - and its step becomes known. *)
          let known = ref [] in                    (* (child, step), in visiting order *)
          let actions = [| []; [] |] in             (* per child, in time order: `Leaf token | `Wake (the next fire group of the outer model) | `Res *)
          let final = ref [] in
          let continue = ref true in
          while !continue do
            let scs = List.mapi (fun c s -> s @ (match List.assoc_opt c !known with Some st -> [st] | None -> [])) [oscs.(0); oscs.(1)] in
            let d = drop_n !otr (run_outer scs !ohist) in
            (match List.find_map (fun e -> match e with EC (c, _) when not (List.mem_assoc (int_of_nat c) !known) -> Some (int_of_nat c) | _ -> None) d with
             | None -> continue := false; final := d
             | Some c ->
                 (* selective: the inner combinator is always handed the same sub-waker of the outer one; otherwise it is handed the caller's waker,
                    which is new to it unless it is the one of its own last poll *)
                 let pop = if not outer_passes then (if ipolled.(c) then OPollSame else OPollFresh)
                           else (if ipolled.(c) && last_opid.(c) = opid then OPollSame else OPollFresh) in
                 ihist.(c) <- ihist.(c) @ [pop];
                 let t = run_level (leaves c) ihist.(c) in
                 let idelta = drop_n itr.(c) t in
                 itr.(c) <- List.length t; ipolled.(c) <- true; last_opid.(c) <- opid;
                 (match idelta with EB pin :: _ -> Hashtbl.replace pmap.(c) (int_of_nat pin) opid | _ -> ());
                 let acts = ref [] and fires = ref [] in
                 let act a = acts := a :: !acts in
                 (* a leaf wakes, from inside its poll, a leaf of the OTHER inner combinator: that combinator reacts at once *)
                 let cross l2 k2 =
                   let b = inner_of l2 in
                   ihist.(b) <- ihist.(b) @ [OFire (nat_of_int (l2 - base b), k2)];
                   let tb = run_level (leaves b) ihist.(b) in
                   let db = drop_n itr.(b) tb in itr.(b) <- List.length tb;
                   List.iter (fun e -> match e with
                     | EF (j, k) -> act (`Leaf (Printf.sprintf "f%d.%d" (base b + int_of_nat j) (int_of_nat k)))
                     | EW p when outer_passes -> act (`Leaf (Printf.sprintf "W%d" (tr_pid b p)))
                     | EW _ -> act `Wake; fires := HOf (nat_of_int b, O) :: !fires
                     | _ -> ()) db in
                 let pending = ref [] and curj = ref (-1) in
                 let flush_until (m: href -> bool) =          (* wake-ups scripted before the one the model has just reported (or all of them) *)
                   let rec go () = (match !pending with
                     | [] -> ()
                     | h :: r -> pending := r;
                         if m h then () else begin
                           (match h with HOf (l2, k2) when inner_of (int_of_nat l2) <> c -> cross (int_of_nat l2) k2 | _ -> ());
                           go () end) in go () in
                 List.iter (fun e -> match e with
                   | EC (j, w) ->
                       let l = base c + int_of_nat j in
                       curj := int_of_nat j;
                       pending := (match List.nth_opt (List.nth scripts l) npolls.(l) with Some st -> st.fires | None -> []);
                       npolls.(l) <- npolls.(l) + 1;
                       (* what a leaf is handed: the inner combinator's sub-waker for it; or, below an inner race, what the race was handed - the
                          caller's waker, or the outer combinator's sub-waker for the race, labelled by the first leaf that was ever handed it *)
                       act (`Leaf (match w with
                         | WSub _ -> Printf.sprintf "c%d:S%d" l l
                         | WPar p when outer_passes -> Printf.sprintf "c%d:P%d" l (tr_pid c p)
                         | WPar _ -> (if first_leaf.(c) < 0 then first_leaf.(c) <- l); Printf.sprintf "c%d:S%d" l first_leaf.(c)))
                   | EF (j, k) ->
                       let l2 = base c + int_of_nat j in
                       flush_until (fun h -> match h with
                         | HSelf -> int_of_nat j = !curj && int_of_nat k = npolls.(l2) - 1
                         | HOf (lg, kg) -> int_of_nat lg = l2 && kg = k);
                       act (`Leaf (Printf.sprintf "f%d.%d" l2 (int_of_nat k)))
                   | EW p when outer_passes -> act (`Leaf (Printf.sprintf "W%d" (tr_pid c p)))
                   | EW _ -> act `Wake; fires := HSelf :: !fires
                   | EAns a -> flush_until (fun _ -> false); act (`Leaf (show_ans a))
                   | EDc j -> act (`Leaf (Printf.sprintf "D%d" (base c + int_of_nat j)))
                   | EEndR r -> results := (c, r) :: !results
                   | _ -> ()) idelta;
                 let a = (match List.rev idelta with EEndR r :: _ -> to_ans r | EEndX :: _ -> APanic | _ -> APend) in
                 let stp = { fires = (if outer_passes then [] else List.rev !fires); answer = a } in
                 (match a with AReady _ -> winner := c | _ -> ());
                 actions.(c) <- List.rev !acts;
                 known := !known @ [(c, stp)])
          done;
          List.iter (fun (c, stp) -> oscs.(c) <- oscs.(c) @ [stp]) !known;
          otr := !otr + List.length !final;
          (* print: a poll of child c is replaced by what happened inside the inner combinator *)
          let rec walk evs =
            (match evs with
             | [] -> ()
             | EB p :: r -> emit (Printf.sprintf "B%d" (int_of_nat p)); walk r
             | EC (c, _) :: r ->
                 let c = int_of_nat c in
                 (* the outer model's events for the wake-ups of this step: groups EF c h [EW p] *)
                 let rec groups evs acc = (match evs with
                   | EF _ :: EW p :: r2 -> groups r2 (Some p :: acc)
                   | EF _ :: r2 -> groups r2 (None :: acc)
                   | r2 -> (List.rev acc, r2)) in
                 let (gs, r') = groups r [] in
                 let gs = ref gs in
                 List.iter (fun a -> match a with
                   | `Leaf s -> emit s
                   | `Wake -> (match !gs with Some p :: g -> gs := g; emit (Printf.sprintf "W%d" (int_of_nat p)) | None :: g -> gs := g | [] -> ())) actions.(c);
                 walk r'
             | EAns _ :: r | EDc _ :: r -> walk r          (* the outer model's view of the inner combinator as a child *)
             | ED :: r -> emit "d"; dropped := true; walk r
             | EEndP :: r -> emit "E:P"; walk r
             | EEndX :: r -> emit "E:X"; walk r
             | EEndR ONone :: r -> emit "E:N"; ended := true; walk r
             | EEndR (OSome (Some k, _)) :: r when kind = "nest_gj" ->      (* the member in slot k (= inner combinator k) has resolved: its output vector *)
                 let vs = (match List.assoc_opt (int_of_nat k) !results with Some (OVals vs) -> vs | _ -> []) in
                 emit ("E:S[" ^ ints vs ^ "]"); walk r
             | EEndR (OSome (_, vs)) :: r -> emit ("E:S[" ^ ints vs ^ "]"); walk r
             | EEndR _ :: r ->
                 let vals c = (match List.assoc_opt c !results with Some (OVals vs) -> vs | _ -> []) in
                 emit ("E:R[" ^ ints (if kind = "nest_rj" then vals !winner else vals 0 @ vals 1) ^ "]"); walk r
             | _ :: r -> walk r) in
          walk !final
        end
    | OFire (l, k) ->
        let l = int_of_nat l in
        let c = if l < half then 0 else 1 in
        ihist.(c) <- ihist.(c) @ [OFire (nat_of_int (l - base c), k)];
        let t = run_level (leaves c) ihist.(c) in
        let d = drop_n itr.(c) t in itr.(c) <- List.length t;
        List.iter (fun e -> match e with
          | EO -> emit "o"
          | EF (j, k) -> emit (Printf.sprintf "f%d.%d" (base c + int_of_nat j) (int_of_nat k))
          | EW p when outer_passes -> emit (Printf.sprintf "W%d" (tr_pid c p))
          | EW _ -> outer_fire c
          | _ -> ()) d
    | ODrop -> emit "d"; dropped := true; ohist := !ohist @ [ODrop]; otr := List.length (run_outer [oscs.(0); oscs.(1)] !ohist);
               Array.iteri (fun c _ -> ihist.(c) <- ihist.(c) @ [ODrop]; itr.(c) <- List.length (run_level (leaves c) ihist.(c))) ihist
    | OMut _ -> ()) ops;
  if not !dropped then emit "d";
  List.rev !out

let () =
  let selective = Sys.argv.(1) = "std" in
  try while true do
    let line = input_line stdin in
    if String.trim line <> "" then begin
      let bar = Str.search_forward (Str.regexp_string " | ") line 0 in
      let head = String.sub line 0 bar and ops = String.sub line (bar + 3) (String.length line - bar - 3) in
      match split ' ' head with
      | id :: comb :: cont :: nstr :: rest ->
        let n = int_of_string (String.sub nstr 2 (String.length nstr - 2)) in
        let scripts = if n = 0 || cont = "group" then [] else List.map parse_script (split ';' (match rest with s :: _ -> s | [] -> "")) in
        Hashtbl.reset ext_born; n_inserted := 0;
        let ops = List.concat_map parse_ops (List.filter (fun s -> s <> "") (split ' ' ops)) in
        (* the arity-0 tuple impls are separate hand-written impls: their behaviour is the slice algorithm at n = 0 *)
        let tuple = ((cont = "tuple" || cont = "ext") && n > 0) in
        keyed := (comb = "fgroup_keyed" || comb = "sgroup_keyed"); Hashtbl.reset first_seen;
        let tr = match comb with
          | "join" -> run_join selective false tuple scripts ops
          | "try_join" -> run_join selective true tuple scripts ops
          | "merge" -> run_merge selective scripts ops
          | "zip" -> run_zip selective scripts ops
          | "race" -> run_race scripts ops
          | "race_ok" -> run_race_ok (nat_of_int (if cont = "array" then 0 else if cont = "tuple" then 1 else 2)) scripts ops
          | "chain" -> run_chain scripts ops
          | "wait_fut" -> run_wait false scripts ops
          | "wait_stream" -> run_wait true scripts ops
          | "fgroup" | "fgroup_keyed" -> run_group selective false (nat_of_int n) ops
          | "sgroup" | "sgroup_keyed" -> run_group selective true (nat_of_int n) ops
          | "nest_jj" | "nest_mm" | "nest_jt" | "nest_gj" | "nest_gm" | "nest_jr" | "nest_rj" | "nest_cm" | "nest_zm" -> []
          | _ -> failwith "comb" in
        (* the keys of members born through extend are not observable: their K tokens are printed as a bare `k` (the i-th EK belongs to the i-th insert) *)
        let nk = ref 0 in
        let toks = List.map (fun e -> match e with EK _ -> let i = !nk in incr nk; if Hashtbl.mem ext_born i then "k" else show_ev e | _ -> show_ev e) tr in
        let toks = if List.mem comb ["nest_jj"; "nest_mm"; "nest_jt"; "nest_gj"; "nest_gm"; "nest_jr"; "nest_rj"; "nest_cm"; "nest_zm"] then nest_trace selective comb scripts ops else toks in
        print_endline (String.concat " " (id :: toks))
      | _ -> failwith "case"
    end
  done with End_of_file -> ()
