(* montool: evaluates the Coq-extracted trace predicates (the very functions the theorems of coq/Properties are about) on traces of the CRATE.
   usage: montool <cases file> <traces file> <config std|alloc|nostd>
   For every case prints nothing when all applicable predicates hold, otherwise one line `ID <predicate> fails`.
   The parser is the inverse of runner/main.ml's printer.  Sub-waker labels (S<first member that was handed an equivalent waker>) are mapped back to
   slot numbers: for the fixed combinators label = slot; for a group the slot is the key of the member that is polled with the label. *)
open Mon
(* memoised (and shared): the fresh slot numbers of members whose key is unknown start at 100000, and a unary numeral of that size must not be rebuilt per token *)
let nat_memo : (int, nat) Hashtbl.t = Hashtbl.create 1024
let nat_of_int n =
  let rec up k acc = if k > n then acc else (let v = S acc in Hashtbl.replace nat_memo k v; up (k + 1) v) in
  if n <= 0 then O else
  match Hashtbl.find_opt nat_memo n with
  | Some v -> v
  | None ->
      let rec base k = if k <= 0 then (0, O) else (match Hashtbl.find_opt nat_memo k with Some v -> (k, v) | None -> base (k - 1)) in
      let (k0, v0) = base (n - 1) in up (k0 + 1) v0
let split c s = String.split_on_char c s
let starts p s = String.length s >= String.length p && String.sub s 0 (String.length p) = p
let after p s = String.sub s (String.length p) (String.length s - String.length p)
let ints s = if s = "" then [] else List.map (fun x -> nat_of_int (int_of_string x)) (split ',' s)
let inside s = (* "X[a,b]" -> "a,b" *)
  let l = String.index s '[' in String.sub s (l + 1) (String.length s - l - 2)

let parse_trace (is_group: bool) (toks: string list) : ev list =
  let keys : (int, int) Hashtbl.t = Hashtbl.create 16 in     (* member -> key (groups) *)
  let slot_of_label : (int, int) Hashtbl.t = Hashtbl.create 16 in
  let nmem = ref 0 and fresh = ref 100000 in
  let out = ref [] in
  let add e = out := e :: !out in
  List.iter (fun t ->
    if t = "" then ()
    else if starts "E:" t then begin
      let b = after "E:" t in
      if b = "P" then add EEndP else if b = "X" then add EEndX else if b = "N" then add (EEndR ONone)
      else if starts "F" b then add (EEndR (OErr (nat_of_int (int_of_string (after "F" b)))))
      else if starts "R[" b then add (EEndR (OVals (ints (inside b))))
      else if starts "O[" b then add (EEndR (OOk (ints (inside b))))
      else if starts "G[" b then add (EEndR (OErrs (ints (inside b))))
      else if starts "S@" b then begin
        let l = String.index b '[' in
        let k = int_of_string (String.sub b 2 (l - 2)) in
        add (EEndR (OSome (Some (nat_of_int k), ints (inside b)))) end
      else if starts "S[" b then add (EEndR (OSome (None, ints (inside b))))
      else failwith ("ret " ^ t) end
    else if t.[0] = 'B' then add (EB (nat_of_int (int_of_string (after "B" t))))
    else if t.[0] = 'W' then add (EW (nat_of_int (int_of_string (after "W" t))))
    else if t.[0] = 'c' && String.contains t ':' then begin
      let i = String.index t ':' in
      let m = int_of_string (String.sub t 1 (i - 1)) in
      let w = String.sub t (i + 1) (String.length t - i - 1) in
      let num = int_of_string (String.sub w 1 (String.length w - 1)) in
      if w.[0] = 'P' then add (EC (nat_of_int m, WPar (nat_of_int num)))
      else begin
        let slot = match Hashtbl.find_opt slot_of_label num with
          | Some s -> s
          | None ->
              let s = if not is_group then num
                      else (match Hashtbl.find_opt keys m with Some k -> k | None -> (incr fresh; !fresh)) in
              Hashtbl.add slot_of_label num s; s in
        add (EC (nat_of_int m, WSub (nat_of_int slot))) end end
    else if t.[0] = '=' then begin
      let a = match t.[1] with
        | 'P' -> APend | 'R' -> AReady (ROk (nat_of_int (int_of_string (after "=R" t)))) | 'F' -> AReady (RErr (nat_of_int (int_of_string (after "=F" t))))
        | 'I' -> AItem (nat_of_int (int_of_string (after "=I" t))) | 'E' -> AEnd | 'X' -> APanic | _ -> failwith ("ans " ^ t) in
      add (EAns a) end
    else if t.[0] = 'f' && String.contains t '.' then begin
      match split '.' (after "f" t) with [c; k] -> add (EF (nat_of_int (int_of_string c), nat_of_int (int_of_string k))) | _ -> failwith "fire" end
    else if t = "o" then add EO
    else if t = "d" then add ED
    else if t = "k" then begin incr nmem end     (* member inserted through extend: key not reported; no slot reset can be replayed *)
    else if t.[0] = 'D' then add (EDc (nat_of_int (int_of_string (after "D" t))))
    else if t.[0] = 'V' then add (EV (nat_of_int (int_of_string (after "V" t))))
    else if t.[0] = 'K' then begin
      let k = int_of_string (after "K" t) in Hashtbl.replace keys !nmem k; incr nmem; add (EK (nat_of_int k)) end
    else if t.[0] = 'N' then add (EN (nat_of_int (int_of_string (after "N" t))))
    else if t = "T" then add (EBool true) else if t = "F" then add (EBool false)
    else failwith ("token " ^ t)) toks;
  List.rev !out

let rec until_drop = function [] -> [] | ED :: _ -> [] | e :: r -> e :: until_drop r
let some = function Some _ -> true | None -> false

let () =
  let cases = open_in Sys.argv.(1) and traces = open_in Sys.argv.(2) in
  let std = Sys.argv.(3) = "std" in
  let pid = if Array.length Sys.argv > 4 then Sys.argv.(4) else "" in
  (* which properties a predicate speaks about *)
  let relevant name = pid = "" || List.mem pid (match name with
    | "mon16" -> ["C16"] | "eager_b" -> ["C08"] | "runE" -> ["C03"; "C08"] | "runC" -> ["C03"; "C10"] | "runK" -> ["C03"; "C07"]
    | "chk" -> ["C03"; "C11"; "C12"] | "chkN" -> ["C11"; "C12"] | "chkN-strict" -> ["C11"] | "once_b" -> ["C11"; "C12"] | "bal_b" -> ["C02"; "C05"] | "c05_b" -> ["C04"; "C05"] | "race_b" -> ["C06"] | "wait_b" -> ["C19"] | "chain_b" -> ["C10"] | "zip_b" -> ["C09"] | _ -> []) in
  let nfail = ref 0 and neval = ref 0 in
  (try while true do
    let case = input_line cases in let trace = input_line traces in
    let bar = Str.search_forward (Str.regexp_string " | ") case 0 in
    let head = String.sub case 0 bar in
    match split ' ' head with
    | id :: comb :: cont :: nstr :: _ ->
      let n = int_of_string (String.sub nstr 2 (String.length nstr - 2)) in
      let is_group = cont = "group" in
      let has_ext = (try ignore (Str.search_forward (Str.regexp "ext(\\|iter(") case 0); true with Not_found -> false) in
      let toks = List.tl (split ' ' trace) in
      (match (try Some (parse_trace is_group toks) with Failure _ -> None) with
       | None -> ()
       | Some t ->
         let live = strip (until_drop t) in           (* the theorems about a live combinator speak about the history before it is dropped / unwinds *)
         let polls_l = lazy (polls_from O live) in
         let fail name = incr nfail; Printf.printf "%s %s fails\n" id name in
         let check name b = if relevant name then begin incr neval; if not (Lazy.force b) then fail name end in
         let fixed_scan = List.mem comb ["join"; "try_join"; "merge"; "zip"] in
         if std && fixed_scan then check "mon16" (lazy (mon16 (nat_of_int n) t));
         if std && is_group && not has_ext then check "mon16" (lazy (mon16 O t));
         if comb = "merge" then check "runE" (lazy (some (runE (Lazy.force polls_l))));
         if comb = "merge" then check "eager_b" (lazy (eager_b live));
         if comb = "chain" then check "runC" (lazy (some (runC (Lazy.force polls_l))));
         if comb = "chain" then check "chain_b" (lazy (chain_b live));                         (* C10_sequential_predicate_holds *)
         if comb = "zip" then check "zip_b" (lazy (zip_b (nat_of_int n) live));                (* C09_rows_predicate_holds *)
         (* the two theorems speak about histories that have not unwound: a trace in which a child panicked is left to the other checks *)
         let nopanic = not (List.exists (function EAns APanic -> true | _ -> false) live) in
         if comb = "race" && nopanic then check "race_b" (lazy (race_b live));                    (* C06_result_predicate_holds *)
         if (comb = "wait_fut" || comb = "wait_stream") && nopanic then check "wait_b" (lazy (wait_b live));   (* C19_gate_predicate_holds *)
         if comb = "race_ok" then check "runK" (lazy (some (runK (Lazy.force polls_l))));
         if is_group && not has_ext then begin
           check "chk" (lazy (chk O [] live));
           check "chkN" (lazy (chkN (comb = "sgroup" || comb = "sgroup_keyed") O O live));
           (* the Pending half for a FutureGroup (C11_pending_means_nonempty): no member of the crate's groups can answer End *)
           if (comb = "fgroup" || comb = "fgroup_keyed") && noend live then check "chkN-strict" (lazy (chkN true O O live));
           if comb = "fgroup_keyed" || comb = "sgroup_keyed" then check "once_b" (lazy (once_b live))
         end;
         if comb = "join" || comb = "try_join" then check "bal_b" (lazy (bal_b (nat_of_int n) (strip t)));
         (* C04 / C05: at most one result; positional Ok vector, or the first error returned with its poll (c05_b_holds) *)
         if comb = "join" || comb = "try_join" then check "c05_b" (lazy (c05_b (comb = "try_join") (nat_of_int n) live)))
    | _ -> ()
  done with End_of_file -> ());
  Printf.printf "evaluated=%d failed=%d\n" !neval !nfail
