"""Case generators.  Every random choice comes from the one `rng` handed in (seeded from VERIF_SEED).

case  := ID COMB CONT n=N script;script;... | op op ...
step  := [!href+href:]answer    href := s | c.k    answer := P | R<v> | F<e> | I<v> | E | X
op    := p (poll, fresh parent waker) | q (poll, same waker) | f<c>.<k> (fire the waker child c got in its k-th poll) | d (drop)
         groups: ins(script) | rm<j> | rsv<n> | len | has<j> | cap | emp
"""
import itertools

# what the harness instantiates (harness/src/main.rs)
ARRAY_SIZES = [0, 1, 2, 3, 4, 5, 8, 12, 16, 23, 65]
TUPLE_MAX = 12
VEC_BOUNDARY = [22, 23, 64, 65, 70, 130, 200]

FUT = ("join", "try_join", "race", "race_ok")
TRY = ("try_join", "race_ok")


def pick_child(rng, n):
    """which child an operation names: uniform for small containers; for large ones mostly the indexes next to the 64-bit block boundaries of the
       readiness bit set and to the inline capacity of the small vectors, and the two ends"""
    if n > 16 and rng.random() < 0.6:
        cand = [c for c in (0, 1, 22, 23, 24, 62, 63, 64, 65, 127, 128, 129, n - 2, n - 1) if 0 <= c < n]
        return rng.choice(cand)
    return rng.randrange(n)


def fires(rng, n, p=0.35, kmax=3):
    f = []
    if n > 0 and rng.random() < p:
        for _ in range(rng.randint(1, 2)):
            f.append("s" if rng.random() < 0.5 else f"{pick_child(rng, n)}.{rng.randrange(kmax)}")
    return ("!" + "+".join(f) + ":") if f else ""


def fscript(rng, n, i, tryj, panic=0.03, perr=0.3, maxlen=4, drain=False):
    """drain: the script is Pending* then Ready and every Pending step wakes the child itself from inside its poll, so that polling alone
       drives the combinator to completion"""
    st = []
    if drain:
        for _ in range(rng.randint(0, maxlen)):
            st.append(("!s:" if rng.random() < 0.9 else fires(rng, n)) + "P")
        st.append(fires(rng, n, 0.15 if maxlen else 0.0) + (f"F{500+i}" if (tryj and rng.random() < perr) else f"R{100+i}"))    # maxlen = 0: nobody wakes anybody
        return ",".join(st)
    for _ in range(rng.randint(0, maxlen)):
        r = rng.random()
        if r < 0.6:
            st.append(fires(rng, n) + "P")
        elif r < 1.0 - panic:
            st.append(fires(rng, n) + (f"F{500+i}" if (tryj and rng.random() < perr) else f"R{100+i}"))
            # what the child WOULD answer if it were (wrongly) polled again after completion: never consumed by a correct combinator
            if rng.random() < 0.3:
                st.append(rng.choice([f"R{900+i}", f"F{950+i}" if tryj else f"R{900+i}", "P"]))
            break
        else:
            st.append(fires(rng, n) + "X")
            break
    return ",".join(st)


def sscript(rng, n, i, panic=0.03, maxlen=6, pitem=0.45, ppend=0.4, drain=False):
    st = []
    k = 0
    if drain:       # (Pending | Item)* End, every Pending step self-waking: polling alone drains the stream
        for _ in range(rng.randint(0, maxlen)):
            if rng.random() < min(ppend, 0.4):
                st.append(("!s:" if rng.random() < 0.9 else fires(rng, n)) + "P")
            else:
                st.append(fires(rng, n, 0.15 if ppend else 0.0) + f"I{100*(i+1)+k}")
                k += 1
        st.append(fires(rng, n, 0.15 if ppend else 0.0) + "E")         # ppend = 0: nobody wakes anybody
        return ",".join(st)
    for _ in range(rng.randint(0, maxlen)):
        r = rng.random()
        if r < ppend:
            st.append(fires(rng, n) + "P")
        elif r < ppend + pitem:
            st.append(fires(rng, n) + f"I{100*(i+1)+k}")
            k += 1
        elif r < 1.0 - panic:
            st.append(fires(rng, n) + "E")
            # a fused stream answers None again, an unfused one may do anything, if it is (wrongly) polled after its end
            if rng.random() < 0.35:
                st.append(rng.choice(["E", "E", f"I{100*(i+1)+90}", "P"]))
                if rng.random() < 0.5:
                    st.append("E")
            break
        else:
            st.append(fires(rng, n) + "X")
            break
    return ",".join(st)


def ops_adversarial(rng, n, maxops=14, drop=0.04):
    ops = []
    for _ in range(rng.randint(1, maxops)):
        r = rng.random()
        if r < 0.5:
            ops.append("p")
        elif r < 0.6:
            ops.append("q")
        elif r < 1.0 - drop and n > 0:
            ops.append(f"f{pick_child(rng, n)}.{rng.randrange(3)}")
        else:
            ops.append("d")
    return ops


def ops_executor(rng, n, rounds=10, drop=0.03):
    """a wake-only executor: poll, then fire the most recent wakers of some children, poll again ... runs to completion mostly"""
    ops = ["p"]
    npolls = [0] * max(n, 1)
    for _ in range(rng.randint(1, rounds)):
        if n > 0:
            for _ in range(rng.randint(1, 2)):
                c = pick_child(rng, n)
                ops.append(f"f{c}.{rng.randrange(0, 4)}")
        ops.append("p" if rng.random() < 0.8 else "q")
        if rng.random() < drop:
            ops.append("d")
            break
    return ops


EXT2 = ("join", "race", "merge", "chain", "zip")


def pick_container(rng, cfg, comb, allow_zero=True):
    conts = ["array", "tuple"] + (["vec"] if cfg != "nostd" else [])
    cont = rng.choice(conts)
    if comb in EXT2 and rng.random() < 0.08:
        return "ext", 2     # a.join(b), a.race(b), a.merge(b), a.chain(b), a.zip(b): the two-argument trait methods
    lo = 0 if allow_zero else 1
    if comb == "race":
        lo = 1          # race over zero futures panics in Indexer (outside C06, DESIGN 7)
    if comb == "zip":
        lo = 1          # zip over zero inputs pends for ever (outside C09)
    if cont == "array":
        sizes = [s for s in ARRAY_SIZES if s >= lo]
        n = rng.choice([s for s in sizes if s <= 5]) if rng.random() < 0.8 else rng.choice(sizes)
    elif cont == "tuple":
        tlo = 0 if (comb in ("join", "try_join", "merge") and lo == 0) else 1
        n = rng.randint(tlo, 4) if rng.random() < 0.75 else rng.randint(tlo, TUPLE_MAX)
    else:
        n = rng.randint(lo, 7)
        if rng.random() < 0.1:
            n = rng.choice(VEC_BOUNDARY)
    return cont, n


def gen_fixed(rng, cfg, combs, count, tag, panic=0.03, style="mixed", allow_zero=True, large=False, long=False):
    """large: only containers beyond the boundaries (arrays of 23 / 65, Vecs of 22 .. 200 children)
       long: few children with LONG lives - futures that answer Pending 20 .. 70 times, streams of 20 .. 70 steps - polled to the very end (no
       property bounds the length of a child's life, so no generator should)"""
    out = []
    for c in range(count):
        comb = rng.choice(combs)
        if large:
            cont = "array" if (cfg == "nostd" or rng.random() < 0.4) else "vec"
            n = rng.choice([23, 65]) if cont == "array" else rng.choice(VEC_BOUNDARY)
        else:
            cont, n = pick_container(rng, cfg, comb, allow_zero)
            while long and not (1 <= n <= 3):
                cont, n = pick_container(rng, cfg, comb, False)
        r = rng.random()
        drain = long or style == "drain" or (style == "mixed" and r >= (0.5 if large else 0.85))     # large containers: half of the cases run to completion
        allready = drain and rng.random() < 0.25       # nobody ever answers Pending: everything is ready in every poll
        ml = {"maxlen": rng.randint(20, 70)} if long else {}
        if comb in FUT:
            scs = ";".join(fscript(rng, n, i, comb in TRY, panic, 0.6 if comb == "race_ok" else 0.3, drain=drain, **({"maxlen": 0} if allready and not long else ml)) for i in range(n))
        else:
            scs = ";".join(sscript(rng, n, i, panic, drain=drain, **ml, **({"ppend": 0.0} if allready else {})) for i in range(n))
        if drain:
            # polls until everything has been consumed (one result per poll at most), a few stale wake-ups in between, polls after the end
            total = sum(len(x.split(",")) for x in scs.split(";")) if n else 0
            ops = []
            for _ in range((total if long else min(total, 40)) + 3):
                ops.append("p" if rng.random() < 0.85 else "q")
                if n > 0 and rng.random() < 0.15:
                    ops.append(f"f{pick_child(rng, n)}.{rng.randrange(60 if long else 3)}")       # long: also the wakers handed out late in a child's life
        elif style == "executor" or (style == "mixed" and r < 0.45):
            ops = ops_executor(rng, n)
        else:
            ops = ops_adversarial(rng, n)
        out.append(f"{tag}{c} {comb} {cont} n={n} {scs} | {' '.join(ops)}")
    return out


NESTS_FUT = ("nest_jj", "nest_jr", "nest_rj", "nest_jt", "nest_gj", "nest_tt")
# (a zip of merges is built by the harness too, "nest_zm", but is not generated: zip deliberately holds an input back while its item for the current
#  row is buffered, so a woken leaf below that input is legitimately not polled - the leaf-level monitors have no notion of "awaited" per level)
NESTS_STR = ("nest_mm", "nest_cm", "nest_gm")


def _local_fires(script, i, half):
    """keep, among the wake-ups a leaf performs inside its polls, only those of leaves below the same inner combinator"""
    def fix(step):
        if not step.startswith("!"):
            return step
        f, _, rest = step[1:].partition(":")
        keep = [x for x in f.split("+") if x == "s" or (int(x.split(".")[0]) < half) == (i < half)]
        return ("!" + "+".join(keep) + ":" if keep else "") + rest
    return ",".join(fix(st) for st in script.split(",")) if script else script


def gen_nest(rng, count, tag, panic=0.02, combs=None, local=False, long=False):
    """two inner combinators over the two halves of the leaves, one outer combinator over them (harness build_nest).  Monitor-only suites and
       the *-nest-sim suites (the composed model coq/Model/Nest.v nest_run predicts the leaf-level trace of all nine kinds).  local=True: no leaf wakes a leaf of the other inner combinator from inside a poll"""
    out = []
    for c in range(count):
        comb = rng.choice(combs or (NESTS_FUT + NESTS_STR))
        n = rng.randint(2, 6)
        cont = "nest"
        if rng.random() < 0.4:       # the array impls of the crate: outer [_; 2] over inner [_; n/2] (the same slice algorithms: the same model)
            n = rng.choice([2, 4, 4, 6]); cont = rng.choice(["nesta", "nesta", "nestt"])       # nestt: the tuple impls (2-tuple over n/2-tuples; for join the tuple algorithm on both levels)
        if long:        # leaves with long lives (self-waking), the nest polled until everything has been consumed
            n = rng.choice([2, 3, 4]) if cont == "nest" else rng.choice([2, 4])
            ml = rng.randint(10, 30)
            scs = [fscript(rng, n, i, comb == "nest_tt", 0.0, drain=True, maxlen=ml) if comb in NESTS_FUT else sscript(rng, n, i, 0.0, drain=True, maxlen=ml) for i in range(n)]
        elif comb in NESTS_FUT:
            scs = [fscript(rng, n, i, comb == "nest_tt", panic) for i in range(n)]
        else:
            scs = [sscript(rng, n, i, panic) for i in range(n)]
        if local:
            scs = [_local_fires(sc, i, n // 2) for i, sc in enumerate(scs)]
        if long:
            total = sum(len(x.split(",")) for x in scs)
            ops = []
            for _ in range(total + 3):
                ops.append("p" if rng.random() < 0.85 else "q")
                if rng.random() < 0.1:
                    ops.append(f"f{rng.randrange(n)}.{rng.randrange(30)}")
        scs = ";".join(scs)
        if not long:
            ops = ops_executor(rng, n) if rng.random() < 0.5 else ops_adversarial(rng, n)
        out.append(f"{tag}{c} {comb} {cont} n={n} {scs} | {' '.join(ops)}")
    return out


def gen_wait(rng, count, tag, panic=0.03, long=False):
    """long: a deadline that answers Pending up to 30 times, an inner future / stream of up to 60 steps, polled to the very end"""
    out = []
    for c in range(count):
        comb = rng.choice(["wait_fut", "wait_stream"])
        if long:
            scs = fscript(rng, 2, 0, False, 0.0, drain=True, maxlen=30) + ";" + (fscript(rng, 2, 1, False, 0.0, drain=True, maxlen=40) if comb == "wait_fut" else sscript(rng, 2, 1, 0.0, drain=True, maxlen=60))
            ops = ["p" if rng.random() < 0.85 else "q" for _ in range(scs.count(",") + 5)]
            out.append(f"{tag}{c} {comb} ext n=2 {scs} | {' '.join(ops)}")
            continue
        scs = fscript(rng, 2, 0, False, panic) + ";" + (fscript(rng, 2, 1, False, panic) if comb == "wait_fut" else sscript(rng, 2, 1, panic))
        ops = ops_executor(rng, 2) if rng.random() < 0.5 else ops_adversarial(rng, 2)
        out.append(f"{tag}{c} {comb} ext n=2 {scs} | {' '.join(ops)}")
    return out


def gen_groups(rng, count, tag, kinds=("fgroup", "fgroup_keyed", "sgroup", "sgroup_keyed"), maxops=30, panic=0.03, long=False, big=False):
    """long: a group with a long life - up to 200 operations (many rounds of insert / complete / remove: slab keys reused over and over), member
       streams of up to 40 steps, drained at the end"""
    if long:
        maxops = 200
    """big: a group holding 66 .. 130 members at once (beyond the inline capacities of the waker / readiness containers and one 64-bit block of the
       readiness set), inserted one by one so that their keys are known; then the usual operations; drained at the end"""
    out = []
    for c in range(count):
        comb = rng.choice(kinds)
        cap = rng.choice([0, 0, 0, 1, 2, 3, 5])
        ops = []
        nm = 0
        extborn = set()
        drain = long or big or rng.random() < 0.15       # members wake themselves, the history ends with polls until the group is empty (and a few more)
        lm = {"maxlen": 40} if long else ({"maxlen": 2} if big else {})
        fs = (lambda rng, n, i, tryj, panic: fscript(rng, n, i, tryj, drain=True, **({"maxlen": 12} if long else ({"maxlen": 2} if big else {})))) if drain else fscript
        ss = (lambda rng, n, i, panic: sscript(rng, n, i, drain=True, **lm)) if drain else sscript
        if cap == 0 and rng.random() < 0.12:
            # FromIterator: the group is collected from an iterator of members (keys unknown, like extend)
            k = rng.randint(1, 3)
            mk = (lambda j: fs(rng, k, j, False, panic)) if comb.startswith("f") else (lambda j: ss(rng, k, j, panic))
            ops.append("iter(" + ";".join(mk(j) for j in range(k)) + ")")
            extborn.update(range(k))
            nm = k
        if big:
            for _ in range(rng.choice([66, 70, 100, 130])):
                ops.append("ins(" + (fs(rng, max(nm, 1), nm, False, panic) if comb.startswith("f") else ss(rng, max(nm, 1), nm, panic)) + ")")
                nm += 1
                if rng.random() < 0.05:
                    ops.append("p")
        for _ in range(rng.randint(60 if long else 2, maxops)):
            r = rng.random()
            if r < (0.12 if long else 0.28):
                sc = fs(rng, max(nm, 1), nm, False, panic) if comb.startswith("f") else ss(rng, max(nm, 1), nm, panic)
                ops.append(f"ins({sc})")
                nm += 1
            elif r < 0.31 and comb == "fgroup":
                # Extend::extend (FutureGroup only); the keys of these members stay unknown, so rm/has never name them
                k = rng.randint(1, 3)
                ops.append("ext(" + ";".join(fs(rng, max(nm, 1), nm + j, False, panic) for j in range(k)) + ")")
                for j in range(k):
                    extborn.add(nm + j)
                nm += k
            elif r < 0.62:
                ops.append("p")
            elif r < 0.67:
                ops.append("q")
            elif r < 0.80 and nm > 0:
                ops.append(f"f{rng.randrange(nm)}.{rng.randrange(3)}")
            elif r < 0.86 and nm > 0:
                cand = [m for m in range(nm) if m not in extborn]
                if cand:
                    ops.append(f"rm{rng.choice(cand)}")
            elif r < 0.89:
                ops.append(f"rsv{rng.randrange(6)}")
            elif r < 0.92:
                ops.append("len")
            elif r < 0.95 and nm > 0:
                cand = [m for m in range(nm) if m not in extborn]
                if cand:
                    ops.append(f"has{rng.choice(cand)}")
            elif r < 0.97:
                ops.append("cap")
            elif r < 0.98:
                ops.append("emp")
            else:
                ops.append("d")
        if drain:
            ops = [o for o in ops if o != "d"]
            steps = sum(o.count(",") + o.count(";") + 1 for o in ops if o[:4] in ("ins(", "ext(", "iter"))
            ops += ["p"] * ((steps if (long or big) else min(steps, 40)) + 3)
        out.append(f"{tag}{c} {comb} group n={cap}  | {' '.join(ops)}")
    return out


def gen_fair(rng, cfg, count, tag, large=False):
    """merge with one always-ready input f (script of items only, long enough never to run out)
       large: 12 .. 70 inputs, most of them always ready too (the starvation C17 excludes needs competitors that never pause)"""
    out = []
    for c in range(count):
        cont, n = pick_container(rng, cfg, "merge", allow_zero=False)
        if large:
            cont = "array" if (cfg == "nostd" or rng.random() < 0.4) else "vec"
            n = rng.choice([12, 16, 23, 65]) if cont == "array" else rng.choice([13, 22, 23, 30, 64, 65, 70])
        elif n > 8:
            n = rng.randint(1, 8)
            cont = "vec" if cfg != "nostd" else "array"
            if cont == "array" and n not in ARRAY_SIZES:
                n = 5
        f = rng.randrange(n)
        npolls = rng.randint(n, min(3 * n + 4, 96) if large else 3 * n + 4)       # (item tags are 100 * input + k: k < 100)
        scs = []
        for i in range(n):
            if i == f or (large and rng.random() < 0.6):
                scs.append(",".join(f"I{100*(i+1)+k}" for k in range(npolls + 2)))
            else:
                scs.append(sscript(rng, n, i, 0.0))
        ops = []
        for _ in range(npolls):
            ops.append("p" if rng.random() < 0.8 else "q")
            if rng.random() < 0.3:
                ops.append(f"f{rng.randrange(n)}.{rng.randrange(3)}")
        out.append(f"{tag}{c}.f{f} merge {cont} n={n} {';'.join(scs)} | {' '.join(ops)}")
    return out


def gen_never(rng, cfg, combs, count, tag):
    """C20: some children never complete (empty script = Pending for ever, never fires)"""
    out = []
    for c in range(count):
        comb = rng.choice(combs)
        cont, n = pick_container(rng, cfg, comb, allow_zero=False)
        if n == 0:
            n = 1
            cont = "array"
        never = set(rng.sample(range(n), rng.randint(1, max(1, n // 2))))
        scs = []
        for i in range(n):
            if i in never:
                scs.append(",".join(["P"] * rng.randint(0, 2)))
            elif comb in FUT:
                scs.append(fscript(rng, n, i, comb in TRY, 0.0))
            else:
                scs.append(sscript(rng, n, i, 0.0))
        ops = ops_executor(rng, n, rounds=12, drop=0.0)
        out.append(f"{tag}{c} {comb} {cont} n={n} {';'.join(scs)} | {' '.join(ops)}")
    return out


def small_scripts(kind, n, maxlen):
    """all scripts of length <= maxlen over a small alphabet (the exhaustive layer)"""
    if kind == "fut":
        alpha = ["P", "!s:P", "R"]
    elif kind == "try":
        alpha = ["P", "!s:P", "R", "F"]
    else:
        alpha = ["P", "!s:P", "I", "E"]
    res = [[]]
    frontier = [[]]
    for _ in range(maxlen):
        nxt = []
        for s in frontier:
            if s and s[-1] in ("R", "F", "E"):
                continue
            for a in alpha:
                nxt.append(s + [a])
        res += nxt
        frontier = nxt
    return res


def gen_small(comb, cont, n, maxlen, maxops, tag, with_drop=True):
    kind = "try" if comb in TRY else ("fut" if comb in FUT else "str")
    scripts = small_scripts(kind, n, maxlen)
    opalpha = ["p", "q"] + [f"f{c}.0" for c in range(n)] + (["d"] if with_drop else [])
    out = []
    k = 0
    for combo in itertools.product(scripts, repeat=n):
        scs = []
        for i, sc in enumerate(combo):
            items = 0
            st = []
            for a in sc:
                if a == "R":
                    st.append(f"R{100+i}")
                elif a == "F":
                    st.append(f"F{500+i}")
                elif a == "I":
                    st.append(f"I{100*(i+1)+items}")
                    items += 1
                else:
                    st.append(a)
            scs.append(",".join(st))
        for L in range(1, maxops + 1):
            for ops in itertools.product(opalpha, repeat=L):
                if ops[0] != "p" and ops[0] != "d":
                    continue      # nothing can be fired before the first poll; q without a previous poll = p
                out.append(f"{tag}{k} {comb} {cont} n={n} {';'.join(scs)} | {' '.join(ops)}")
                k += 1
    return out


# ---------------------------------------------------------------- concurrent streams
def all_co_stacks():
    """every order of at most three adapters out of limit / take / enumerate / map, with at most one enumerate and one map (the acceptor has one
       closure stage below the terminal one) and up to two limits and takes: 61 stacks.  harness/src/co_stacks.rs is generated from this list
       (tools/mkstacks.py)."""
    import itertools
    out = []
    for L in range(0, 4):
        for seq in itertools.product(["lim", "take", "enum", "map"], repeat=L):
            if seq.count("enum") > 1 or seq.count("map") > 1 or seq.count("lim") > 2 or seq.count("take") > 2:
                continue
            out.append(".".join(seq))
    return out


CO_STACKS = all_co_stacks()
# collect::<Result<Vec<_>, E>>(): the map closure is the fallible one, so there is a map and no enumerate above it
CO_RCOL_STACKS = [x for x in CO_STACKS if "map" in x.split(".") and "enum" not in x.split(".")[x.split(".").index("map"):]]


def gen_co(rng, count, tag, terms=("fe", "tfe", "col"), stacks=None, drop=0.015, panic=0.02, allready=False, large=False):
    """allready: a source that has every item ready and ends at once, and no reference to the source's wakers: the cases that can also be run over
       Vec::into_co_stream() (co-harness `cov:`), whose trace must equal the stream-source trace without the source's own events"""
    out = []
    stacks = stacks or CO_STACKS
    for c in range(count):
        term = rng.choice(terms)
        stack = rng.choice([x for x in stacks if x in CO_RCOL_STACKS] if term == "rcol" else stacks)
        n = rng.randint(30, 90) if large else rng.randint(0, 5)       # large: sources of many items (nothing in the crate may depend on a source being short)
        nc = 1 + 2 * n
        take = ",".join(str(rng.randint(0, n + 1)) for _ in range(stack.count("take"))) if "take" in stack else "-"
        lim = ",".join(str(rng.choice([0, 1, 2, 3, 4, 5, 8, 16, 32, 64] if large else [0, 1, 1, 2, 3])) for _ in range(stack.count("lim"))) if "lim" in stack else "-"

        def cf():
            f = []
            if rng.random() < 0.25:
                for _ in range(rng.randint(1, 2)):
                    f.append("s" if (rng.random() < 0.5 or (allready and nc == 1)) else f"{rng.randrange(1 if allready else 0, nc)}.{rng.randrange(3)}")
            return ("!" + "+".join(f) + ":") if f else ""
        src = []
        if allready:
            src = [f"I{j}" for j in range(n)] + ["E"]
        else:
            for j in range(n):
                for _ in range(rng.choice([0, 0, 0, 0, 0, 1]) if large else rng.choice([0, 0, 1, 2])):
                    src.append("!s:P" if large else cf() + "P")
                src.append(cf() + f"I{j}")
            for _ in range(rng.choice([0, 0, 1])):
                src.append(cf() + "P")
            if rng.random() < 0.9:
                src.append(cf() + "E")

        def work(err):
            st = []
            for _ in range(rng.choice([0, 0, 0, 0, 0, 1]) if large else rng.choice([0, 0, 1, 2, 3])):
                st.append("!s:P" if large else cf() + "P")       # large: a pending closure future wakes itself, so that polls alone drive the pipeline to the end
            r = rng.random()
            never = 0.003 if large else 0.05       # a closure future that never completes
            if r < 1.0 - panic - never:
                st.append(cf() + (f"F{700+rng.randrange(9)}" if err and rng.random() < (0.01 if large else 0.3) else "R"))
            elif r < 1.0 - never:
                st.append(cf() + "X")
            return ",".join(st)
        scripts = [",".join(src)] + [work(True) for _ in range(n)] + [work(term == "rcol") for _ in range(n)]
        ops = []
        for _ in range(rng.randint(60, 160) if large else rng.randint(2, 40)):
            r = rng.random()
            if r < (0.85 if large else 0.5):
                ops.append("p")
            elif r < 0.55:
                ops.append("q")
            elif r < 1.0 - drop:
                ops.append("q" if (allready and nc == 1) else f"f{rng.randrange(1 if allready else 0, nc)}.{rng.randrange(4)}")
            else:
                ops.append("d")
        out.append(f"{tag}{c} co:{stack}:{term} take={take} lim={lim} n={n} {';'.join(scripts)} | {' '.join(ops)}")
    return out


def gen_mt(rng, count, tag):
    """cases for mt-harness (real threads): every Pending answer is woken later from another thread; scripts always reach their end"""
    out = []
    for c in range(count):
        comb = rng.choice(["join", "join", "race", "merge", "merge", "zip", "chain", "fgroup", "sgroup"])
        cont = "vec" if comb in ("fgroup", "sgroup") else rng.choice(["vec", "array", "tuple"])
        n = rng.randint(1, 8) if cont == "vec" else rng.randint(1, 5)
        if cont == "vec" and rng.random() < 0.04:
            n = rng.choice([23, 64, 65, 66, 130])        # beyond the inline capacities of the waker / readiness containers
        scs = []
        for i in range(n):
            if comb in ("join", "race", "fgroup"):
                scs.append(",".join(["P"] * rng.choice([0, 0, 1, 1, 2, 3, 5]) + [f"R{100 + i}"]))
            else:
                st, k = [], 0
                for _ in range(rng.randint(0, 4)):
                    st += ["P"] * rng.choice([0, 0, 1, 2])
                    st.append(f"I{100 * (i + 1) + k}")
                    k += 1
                st += ["P"] * rng.choice([0, 0, 1, 2]) + ["E"]
                scs.append(",".join(st))
        out.append(f"{tag}{c} {comb} {cont} n={n} {';'.join(scs)} | seed={rng.randrange(1, 1 << 30)}")
    return out


def mt_expect(case, line):
    """-> None when the output line of mt-harness is what the scripts allow, else a description"""
    hp = case.split(" | ")[0].split(" ")
    comb, n = hp[1], int(hp[3][2:])
    scs = [s.split(",") if s else [] for s in (hp[4].split(";") if len(hp) > 4 else [])]
    toks = line.split(" ")
    if len(toks) < 2 or toks[1] != "ok":
        return "the wake-driven executor did not finish: " + " ".join(toks[1:8])
    res = toks[2:]
    vals = [[int(x[1:]) for x in sc if x[0] in "RI"] for sc in scs]

    def parse(r):
        return [int(x) for x in r[1:-1].split(",") if x]
    if comb == "join":
        want = [v[0] for v in vals]
        return None if len(res) == 1 and parse(res[0]) == want else f"join returned {res}, expected {want}"
    if comb == "race":
        ok = len(res) == 1 and len(parse(res[0])) == 1 and parse(res[0])[0] in [v[0] for v in vals]
        return None if ok else f"race returned {res}"
    if res[-1:] != ["N"]:
        return f"the stream did not end with None: {res[-3:]}"
    got = [parse(r) for r in res[:-1]]
    if comb == "zip":
        rows = min(len(v) for v in vals)
        # zip ends when any input ends: it may end before the shortest input's items are all matched only if that input ended
        want = [[v[k] for v in vals] for k in range(rows)]
        return None if got == want else f"zip yielded {got}, expected {want}"
    flat = [x for r in got for x in r]
    if comb == "chain":
        want = [x for v in vals for x in v]
        return None if flat == want else f"chain yielded {flat}, expected {want}"
    # merge / groups: every item exactly once, each input's items in its own order
    if sorted(flat) != sorted(x for v in vals for x in v):
        return f"{comb} yielded {flat}, expected the items {vals} each exactly once"
    for v in vals:
        if [x for x in flat if x in v] != v:
            return f"{comb} reordered the items of one input: {flat}"
    return None
