#!/usr/bin/env python3
"""False-alarm regression of the machinery: every kept behaviour-preserving refactoring (harmless/<name>/patch.diff, written by sub-agents that were
   asked NOT to change anything observable) is applied to a scratch export of /repo's HEAD and every quick check is run against it; no check may
   raise an alarm.   usage: tools/harmlessall.py [name ...]     Prints  HARMLESS <name> alarms=<json>  per patch; exit 1 if any check alarmed."""
import glob, hashlib, json, os, re, shutil, subprocess, sys

ROOT = os.path.dirname(os.path.dirname(os.path.abspath(__file__)))
SCRATCH = os.environ.get("SEEDALL_DIR", "/tmp/harmlessall")
names = sys.argv[1:] or sorted(os.path.basename(os.path.dirname(p)) for p in glob.glob(os.path.join(ROOT, "harmless", "*", "patch.diff")))
bad = 0
for name in names:
    tree = os.path.join(SCRATCH, name)
    shutil.rmtree(tree, ignore_errors=True)
    os.makedirs(tree)
    subprocess.run(f"git -C /repo archive HEAD | tar -x -C {tree}", shell=True, check=True)
    if os.path.exists("/repo/Cargo.lock"):
        shutil.copy("/repo/Cargo.lock", os.path.join(tree, "Cargo.lock"))
    r = subprocess.run(["patch", "-p1", "-s", "-i", os.path.join(ROOT, "harmless", name, "patch.diff")], cwd=tree, text=True, capture_output=True)
    if r.returncode != 0:
        print(f"HARMLESS {name} patch does not apply: {r.stdout[-200:]}")
        bad += 1
        continue
    r = subprocess.run([sys.executable, os.path.join(ROOT, "tools", "seedrun.py"), tree], text=True, capture_output=True, cwd=ROOT)
    alarms = {m.group(1): m.group(3) for m in (re.match(r"(C\d\d) rc=(\d) (\S+)", l) for l in r.stdout.splitlines()) if m and m.group(2) != "0"}
    bad += bool(alarms)
    print(f"HARMLESS {name} alarms={json.dumps(alarms, sort_keys=True)}", flush=True)
    tag = hashlib.md5(os.path.abspath(tree).encode()).hexdigest()[:8]
    shutil.rmtree(tree, ignore_errors=True)
    for p in glob.glob(os.path.join(ROOT, ".cache", f"*{tag}*")) + glob.glob(os.path.join(ROOT, ".cache", "seedrun", tag)):
        shutil.rmtree(p, ignore_errors=True) if os.path.isdir(p) else os.remove(p)
shutil.rmtree(SCRATCH, ignore_errors=True)
subprocess.run([sys.executable, os.path.join(ROOT, "tools", "autotraits.py"), "generate"], cwd=ROOT, capture_output=True)
print(f"{len(names)} refactorings, {bad} with an alarm")
sys.exit(1 if bad else 0)
