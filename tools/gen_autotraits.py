#!/usr/bin/env python3
"""Translator for C18: rustdoc JSON of the current tree -> AutoTraits_gen.v
   For every struct/enum of the crate: its field types with crate-local types expanded (substituting type arguments), as a Coq `ty`;
   and, as expectation, the where-clauses of the auto-trait impl that rustc itself synthesized for it."""
import json, sys
d = json.load(open(sys.argv[1])); idx = d['index']
def q(s): return '"' + s.replace('"', '') + '"'
local = {}   # id -> (name, type param names, list of field type json, assoc equalities)
def assoc_eqs(gen):
    eqs = {}
    def scan(pname, bounds):
        for b in bounds or []:
            tb = b.get('trait_bound')
            if not tb: continue
            a = (tb['trait'].get('args') or {}).get('angle_bracketed') or {}
            for c in a.get('constraints', []):
                eq = (c.get('binding') or {}).get('equality') or {}
                if 'type' in eq: eqs[(pname, c['name'])] = eq['type']
    for g in gen['params']:
        if 'type' in g['kind']: scan(g['name'], g['kind']['type'].get('bounds'))
    for p in gen['where_predicates']:
        bp = p.get('bound_predicate')
        if bp and 'generic' in bp['type']: scan(bp['type']['generic'], bp['bounds'])
    return eqs
for i, it in idx.items():
    inner = it.get('inner', {})
    if it.get('crate_id') != 0: continue
    if 'struct' in inner:
        st = inner['struct']; kind = st['kind']
        fids = kind.get('plain', {}).get('fields') if 'plain' in kind else ([f for f in kind.get('tuple', []) if f is not None] if 'tuple' in kind else [])
        fields = [idx[str(f)]['inner']['struct_field'] for f in (fids or []) if str(f) in idx]
        local[int(i)] = (it['name'], [g['name'] for g in st['generics']['params'] if 'type' in g['kind']], fields, assoc_eqs(st['generics']))
    elif 'enum' in inner:
        en = inner['enum']; fields = []
        for v in en['variants']:
            vk = idx[str(v)]['inner']['variant']['kind']
            fids = vk.get('tuple') if isinstance(vk, dict) and 'tuple' in vk else (vk.get('struct', {}).get('fields') if isinstance(vk, dict) and 'struct' in vk else [])
            for f in (fids or []):
                if f is not None and str(f) in idx: fields.append(idx[str(f)]['inner']['struct_field'])
        local[int(i)] = (it['name'], [g['name'] for g in en['generics']['params'] if 'type' in g['kind']], fields, assoc_eqs(en['generics']))
def targs(args):
    out = []
    if args and 'angle_bracketed' in args:
        for a in args['angle_bracketed']['args']:
            if 'type' in a: out.append(a['type'])
    return out
def conv(t, env, depth=0, eqs=None):
    eqs = eqs or {}
    """rustdoc type json -> Coq ty term (string); env maps type-parameter names to already converted terms"""
    if depth > 12: return 'TBad "too deep"'
    if 'generic' in t: return env.get(t['generic'], 'TPar ' + q(t['generic']))
    if 'primitive' in t: return 'TPrim'
    if 'qualified_path' in t:
        qp = t['qualified_path']; st = qp['self_type']
        if 'generic' in st and st['generic'] not in env and (st['generic'], qp['name']) in eqs:
            return conv(eqs[(st['generic'], qp['name'])], env, depth + 1, eqs)
        if 'generic' in st and st['generic'] in env and env[st['generic']].startswith('TPar ') and (env[st['generic']][6:-1], qp['name']) in eqs:
            return conv(eqs[(env[st['generic']][6:-1], qp['name'])], {}, depth + 1, eqs)
        if 'generic' in st and st['generic'] not in env:
            return 'TAssoc %s %s %s' % (q(st['generic']), q(''), q(qp['name']))
        if 'generic' in st:   # associated type of a substituted argument: keep it opaque but named after the argument if that is a parameter
            inner = env[st['generic']]
            if inner.startswith('TPar '): return 'TAssoc %s %s %s' % (inner[5:], q(''), q(qp['name']))
        return 'TBad "associated type of a non-parameter"'
    if 'array' in t: return 'TAgg [%s]' % conv(t['array']['type'], env, depth + 1, eqs)
    if 'slice' in t: return 'TAgg [%s]' % conv(t['slice'], env, depth + 1, eqs)
    if 'tuple' in t: return 'TAgg [%s]' % '; '.join(conv(x, env, depth + 1, eqs) for x in t['tuple'])
    if 'borrowed_ref' in t:
        br = t['borrowed_ref']
        return ('TAgg [%s]' if br.get('is_mutable') else 'TShRef (%s)') % conv(br['type'], env, depth + 1, eqs)
    if 'resolved_path' in t:
        rp = t['resolved_path']; args = [conv(a, env, depth + 1, eqs) for a in targs(rp.get('args'))]
        if rp['id'] in local:
            name, params, fields, _ = local[rp['id']]
            env2 = dict(zip(params, args))
            return 'TAgg [%s]' % '; '.join(conv(f, env2, depth + 1, eqs) for f in fields)
        return 'TExt %s [%s]' % (q(rp['path']), '; '.join(args))
    return 'TBad %s' % q(list(t.keys())[0])
def show_ty(t):
    if 'generic' in t: return 'APar ' + q(t['generic'])
    if 'qualified_path' in t:
        qp = t['qualified_path']
        if 'generic' in qp['self_type']: return 'AAssoc %s %s %s' % (q(qp['self_type']['generic']), q(''), q(qp['name']))
    return None
synth = {}
for it in idx.values():
    inner = it.get('inner', {})
    if 'impl' in inner and inner['impl'].get('is_synthetic'):
        im = inner['impl']; tr = (im.get('trait') or {}).get('path')
        if tr in ('Send', 'Sync') and 'resolved_path' in im['for'] and im['for']['resolved_path']['id'] in local:
            preds = []; ok = True
            for p in im['generics']['where_predicates']:
                bp = p.get('bound_predicate')
                if not bp: continue
                a = show_ty(bp['type'])
                for b in bp['bounds']:
                    tp = (b.get('trait_bound') or {}).get('trait', {}).get('path')
                    if tp in ('Send', 'Sync') and a: preds.append('(%s, %s)' % (a, 'true' if tp == 'Send' else 'false'))
                    elif tp in ('Send', 'Sync'): ok = False
            synth[(im['for']['resolved_path']['id'], tr)] = (bool(im.get('is_negative')), preds, ok)
out = ['From Coq Require Import List String Bool.', 'Import ListNotations.', 'Require Import AutoTraits.', 'Open Scope string_scope.', 'Open Scope list_scope.', '']
n = 0; skipped = 0
for i, (name, params, fields, eqs) in sorted(local.items()):
    term = 'TAgg [%s]' % '; '.join(conv(f, {}, 0, eqs) for f in fields)
    out.append('Definition T%d : ty := %s.   (* %s<%s> *)' % (i, term, name, ', '.join(params)))
    for tr, flag in (('Send', 'true'), ('Sync', 'false')):
        if (i, tr) not in synth: skipped += 1; continue
        neg, preds, ok = synth[(i, tr)]
        if neg:
            out.append('Example rustc_not_%s_%d : existsb (fun x => match fst x with ANever _ => true | _ => false end) (needs %s T%d) = true. Proof. vm_compute. reflexivity. Qed.' % (tr, i, flag, i))
        elif ok:
            out.append('Example rustc_%s_%d : same_set (needs %s T%d) [%s] = true. Proof. vm_compute. reflexivity. Qed.' % (tr, i, flag, i, '; '.join(preds)))
        else: skipped += 1
        out.append('Example prop_%s_%d : only_children %s (needs %s T%d) = true. Proof. vm_compute. reflexivity. Qed.   (* C18 for %s *)' % (tr, i, flag, flag, i, name))
        n += 1
open('AutoTraits_gen.v', 'w').write('\n'.join(out) + '\n')
print('types:', len(local), 'checked (type, trait) pairs:', n, 'skipped:', skipped)
