#!/usr/bin/env python3
"""Regenerates /verif/MANIFEST.json from the table below (one entry per property of properties.jsonl)."""
import json, os

ROOT = os.path.dirname(os.path.dirname(os.path.abspath(__file__)))

NOTE = ("Trusted: Coq 8.16.1 kernel; no axioms (Print Assumptions: Closed under the global context); ExtrOcamlBasic extraction + OCaml; "
        "the Rust harness, runner parsers and Python driver; the correspondence is sampled, so the theorem speaks about the code only as far "
        "as the model predicts the code. Modelled not verified: all of /repo/src; std Mutex/Arc/Waker, slab, fixedbitset, smallvec, "
        "futures-buffered, pin-project and rustc's drop glue/async lowering are outside the model (DESIGN.md 8).")

# id -> (claimed?, design ref, level text, technique, reason if not claimed)
P = {}


def claim(pid, ref, text, technique="Coq proof over an executable model + differential correspondence of the extracted model against the crate"):
    P[pid] = dict(claimed=True, ref=ref, text=text, technique=technique)


def unclaim(pid, reason):
    P[pid] = dict(claimed=False, reason=reason)


for i in range(1, 21):
    unclaim(f"C{i:02d}", "check not yet materialised in /verif (prototype exists, being ported; see DESIGN.md status table)")

claim("C04", "DESIGN.md 6 C04",
      "Theorems C04_join_positional / C04_join_scripts (Coq, axiom-free) over the executable model of join for every number of children, "
      "every child behaviour, every history of polls/wake-ups/drop and both waker strategies: at most one result, and it holds each child's "
      "own single output at the child's position. The extracted model is run against the real crate (arrays, all tuple arities, Vec, "
      "three feature configurations) on an exhaustive small space plus thousands of random schedules and must predict every return value; "
      "a monitor re-evaluates the property on each implementation trace.")


def main():
    checks = []
    na = []
    for pid in sorted(P):
        e = P[pid]
        if e["claimed"]:
            checks.append(dict(
                property_id=pid,
                quick_cmd=f"./check {pid} --tier quick",
                thorough_cmd=f"./check {pid} --tier thorough",
                evidence_file=f"/verif/evidence/{pid}.json",
                replay_cmd_template="./check replay {path}",
                engine="coq+translator" if pid == "C18" else "coq+diff",
                level_claimed=dict(category="proof", text=e["text"], design_ref=e["ref"]),
                level_note=NOTE,
                technique=e["technique"]))
        else:
            na.append(dict(property_id=pid, reason=e["reason"]))
    m = {
        "version": 1,
        "setup_cmd": "./setup.sh",
        "hooks": {"guard": "futures_concurrency_verif",
                  "enable": "none needed: every check observes the crate through its public API with instrumented children and wakers "
                            "(harness/), built with plain `cargo build --release --offline` in three feature configurations",
                  "baseline_off_cmd": "cd /repo && cargo test --workspace --no-fail-fast --offline",
                  "source_commits": [], "add_only": True},
        "engines": [
            {"name": "coq+diff", "path": "coq/ runner/ harness/ tools/",
             "serves_properties": [c["property_id"] for c in checks if c["engine"] == "coq+diff"],
             "kind_free_text": "machine-checked proof in Coq 8.16.1 over an executable Gallina model, plus a differential correspondence "
                               "check that runs the extracted model and the crate on the same cases"},
            {"name": "coq+translator", "path": "coq/Model/AutoTraits.v tools/autotraits.py",
             "serves_properties": [c["property_id"] for c in checks if c["engine"] == "coq+translator"],
             "kind_free_text": "Coq evaluation of a table regenerated from the source on every run (rustdoc JSON -> Coq), compared with rustc's own answer"}],
        "checks": checks,
        "notes": "DESIGN.md explains the approach; known_findings.txt lists repaired defects (two fix: commits in /repo).",
        "not_applicable": na,
    }
    json.dump(m, open(os.path.join(ROOT, "MANIFEST.json"), "w"), indent=1)
    print(f"{len(checks)} checks, {len(na)} not claimed")


if __name__ == "__main__":
    main()
