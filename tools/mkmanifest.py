#!/usr/bin/env python3
"""Regenerates /verif/MANIFEST.json from the table below (one entry per property of properties.jsonl)."""
import json, os

ROOT = os.path.dirname(os.path.dirname(os.path.abspath(__file__)))

NOTE = ("Trusted: Coq 8.16.1 kernel; no axioms (Print Assumptions: Closed under the global context); ExtrOcamlBasic extraction + OCaml; "
        "the Rust harness, runner parsers and Python driver; the correspondence is sampled, so the theorem speaks about the code only as far "
        "as the model predicts the code. Modelled not verified: all of /repo/src; std Mutex/Arc/Waker, slab, fixedbitset, smallvec, "
        "futures-buffered, pin-project and rustc's drop glue/async lowering are outside the model (DESIGN.md 8).")

# id -> (claimed?, design ref, level text, technique, reason if not claimed)
P = {}


def claim(pid, ref, text, technique="Coq proof over an executable model + differential correspondence of the extracted model against the crate"):
    P[pid] = dict(claimed=True, ref=ref, text=text, technique=technique)


def unclaim(pid, reason):
    P[pid] = dict(claimed=False, reason=reason)


for i in range(1, 21):
    unclaim(f"C{i:02d}", "check not yet materialised in /verif (prototype exists, being ported; see DESIGN.md status table)")

claim("C04", "DESIGN.md 6 C04",
      "Theorems C04_join_positional / C04_join_scripts (Coq, axiom-free) over the executable model of join for every number of children, "
      "every child behaviour, every history of polls/wake-ups/drop and both waker strategies: at most one result, and it holds each child's "
      "own single output at the child's position. The extracted model is run against the real crate (arrays, all tuple arities, Vec, "
      "three feature configurations) on an exhaustive small space plus thousands of random schedules and must predict every return value; "
      "a monitor re-evaluates the property on each implementation trace.")



COMMON = (" The extracted model is run against the real crate (arrays, tuples of every arity, Vec; std / alloc-only / no_std builds) on an exhaustive "
          "small space plus thousands of random schedules per run (wakes inside polls, stale and repeated wakers, fresh parent wakers, spurious polls, "
          "early drops, panicking children) and must predict the implementation's trace under the property's projection; a monitor re-evaluates the "
          "property on every implementation trace, and the Coq-extracted trace predicates the theorems are about (runner/montool.ml) are evaluated on the crate's traces too. Theorems quantify over all sizes, child behaviours and histories; only the correspondence is sampled.")
claim("C01", "DESIGN.md 6 C01",
      "43 statements in Properties/C01.v.  Selective strategy - after a Pending return, a child that is awaited, was polled, last answered Pending and whose waker fired implies the newest "
      "parent waker was woken (join/try_join slice+tuple, merge, zip, FutureGroup, StreamGroup), plus quiescence (no wake outstanding => every awaited child polled and "
      "unsignalled); non-selective strategy and race/race_ok/chain/wait_until - every waker ever handed out is the parent waker of that poll and firing it wakes that parent. "
      "C01_join_resolves_under_wake_driven_executor: under an executor that fires every child's most recent waker and then polls, a join of n>=1 Pending*-then-Ready children returns its positional result within (longest script) rounds and never unwinds; C01_join_family_returns_... (join and try_join), C01_merge_next_result_... and C01_zip_next_result_...: the stream form, from every reachable state (next item / row or the end within B rounds). The same for FutureGroup and StreamGroup after any history of inserts, removes and reserves (C01_group_next_result_..., the generic section speaks about occupied slots and the member a slot holds), for the join family from every reachable state, and - under every schedule of polls and wake-ups, since they keep no readiness of their own - for race, race_ok and chain (C01_race_resolves_..., C01_race_ok_resolves_..., C01_chain_next_result_...). "
      "C01_*_trace restate it over the observable trace (bookkeeping recomputed from the events); C01_fire_total_*: every handle ever handed out names an existing slot, so firing it never fails. "
      "Nests of combinators are covered by universality (an inner combinator is an arbitrary child, a sub-waker an arbitrary parent) and instantiated by the harness in monitor-only suites. For every nest the harness builds (join of joins, a.join(b) of joins, join of races, race of joins, merge / chain / zip of merges, FutureGroup of joins, StreamGroup of merges, try_join of try_joins; over Vecs, arrays and tuples) a Gallina composition of the single-level models (coq/Model/Nest.v nest_run, extracted; a definition without theorems of its own) predicts the leaf-level trace, which is compared with the crate's. "
      "Partial: real thread interleavings are represented by the lock windows of the model (a wake is atomic with respect to a poll's critical sections); the thorough tier exercises that assumption with real threads (mt-harness: 40 000 cases, every Pending child woken from a second OS thread, hang / panic / wrong result reported)." + COMMON)
claim("C02", "DESIGN.md 6 C02",
      "Ledger theorems over the complete history closed by a drop (any drop point, a panic at any child poll, a poll after completion): every child dropped exactly once, "
      "every produced value returned xor dropped exactly once - join/try_join, merge, zip, both groups, chain, race, race_ok (successes and errors counted separately; "
      "the returned error aggregate is exactly the errors produced) and wait_until (future and stream form). Partial: that the unsafe code implements the PollState / MaybeUninit "
      "tables is only exercised through the events it produces (drop counting on every trace; the thorough tier also runs 960 cases under Miri with heap-owning values: double free, leak, uninitialised read), not modelled at byte level." + COMMON)
claim("C03", "DESIGN.md 6 C03",
      "Trace theorems: no child is polled after Ready / End / its drop event (join family, merge automaton runE, zip, groups chk, race, race_ok runK, chain runC, wait_until); "
      "polling outside a poll is excluded by the shape of the model's operations and compared position by position." + COMMON)
claim("C05", "DESIGN.md 6 C05", "C05_try_join: at most one result; Ok = positional vector of the children's own Ok values with nobody failed; Err e = the first failure, returned with it, and the last child poll ever made; C05_ledger: stored values are dropped, not returned." + COMMON)
claim("C06", "DESIGN.md 6 C06", "C06_race_first_wins (Pr): the winner is the first child seen to resolve, in that poll, which is the last child poll ever made; C06_losers_dropped: the losers are dropped unfinished with the race." + COMMON)
claim("C07", "DESIGN.md 6 C07", "C07_race_ok_first_success (Pk) for the array, tuple and Vec algorithms: first success wins in that poll; Err only when all n failed, positional aggregate; a failed child is never polled again; zero futures -> empty aggregate." + COMMON)
claim("C08", "DESIGN.md 6 C08", "C08_merge_exactly_once: per input, the yields with that provenance are exactly the items it produced, in order; nothing else is returned; None iff all inputs ended (zero inputs: first poll, after the fix: commit); C08_yields_at_once (automaton eager_b): an item answered by an input is the result of that very poll - the Coq-extracted predicate is also evaluated on every trace of the crate. C08_every_item_comes_out_under_wake_driven_executor: after any history the wake-driven executor of C01 is handed None within (items still scripted + 1) * B rounds, at a world of the model, where exactly-once says every item was yielded." + COMMON)
claim("C09", "DESIGN.md 6 C09", "C09_zip_rows (Tz): k-th row = k-th items positional; at most one item ahead; None with the first End, which is the last poll; C09_unmatched_dropped: buffered items are dropped, never yielded. C09_zip_ends_under_wake_driven_executor: None is handed out within (items input 0 still has + its buffered item + 1) * B rounds." + COMMON)
claim("C10", "DESIGN.md 6 C10", "C10_chain_sequential (Pc): the sequential automaton accepts the poll list (an input is polled only when every earlier one has ended), results = items in order then None. C10_chain_ends_under_any_schedule: None is returned within s + 1 polls, s the Pending and Item answers scripted before the Ends." + COMMON)
claim("C11", "DESIGN.md 6 C11", "Slab refinement + trace theorems for FutureGroup over all histories of insert/remove/reserve/queries/poll/fire: exactly-once with the insert's key, discipline, len/keys/keys-distinct/capacity, None iff empty, ledger, insert never panics, capacity never shrinks along any history, and the Pending half (C11_pending_means_nonempty: over every history in which no member answers End - a future cannot - every Pending is returned with a member alive). C11_every_member_comes_out_under_wake_driven_executor: a FutureGroup of futures is empty after at most len * B rounds of the wake-driven executor of C01, at a world of the model, so that exactly-once and len say every member's output was returned. Partial: extend is reserve + repeated insert in the runner (as in the crate), validated by the correspondence." + COMMON)
claim("C12", "DESIGN.md 6 C12", "The same theorems for StreamGroup: every item of every member exactly once in member order with its key; a member that ends is dropped in that poll and never polled again; None iff no members remain. C12_every_item_comes_out_under_wake_driven_executor: a StreamGroup of streams is empty after at most (items still scripted + 1) * B rounds of the wake-driven executor of C01, at a world of the model." + COMMON)
claim("C16", "DESIGN.md 6 C16", "C16_join/merge/zip/group: in the selective strategy the model never polls a child whose last answer was Pending and whose slot has not fired since (ghost flag g_bad16 stays false for all histories); C16_*_trace: the same as a statement about the observable trace alone - the boolean monitor mon16, which recomputes the bookkeeping from the events, accepts every trace of the model (Section GhostTrace: the ghost fields are a function of the trace in every reachable state); checked against the std build." + COMMON)
claim("C17", "DESIGN.md 6 C17", "C17_merge_window: an input whose script is items only and never runs out has provenance in any n consecutive results, whatever the others do (generic fairness lemma of rotating scans)." + COMMON)
claim("C19", "DESIGN.md 6 C19", "C19_wait_until_gate (Pw): polls are (deadline,Pending)* (deadline,a0) (inner,_)+; results are exactly the inner's non-Pending answers. Progress: C19_wait_until_resolves_under_any_schedule (future form) and C19_wait_until_stream_next_result_under_any_schedule (stream form, from every reachable state, any schedule of polls and wake-ups), C19_wait_until_stream_ends_under_any_schedule, C19_wait_until_resolves_from_every_reachable_state." + COMMON)
claim("C20", "DESIGN.md 6 C20", "C20_*: after a Pending return with no insertion since, every awaited child has been polled - selective and non-selective strategies, join/try_join, merge, zip, groups. Second sentence: C20_*_sibling_progress(_trace) - in any reachable state an awaited child that has signalled since its last poll (or was never polled) is polled in the very next poll unless that poll delivers a result first or unwinds, whatever the other children do; race/race_ok poll every unfinished child in every Pending poll (C20_race_polls_all, C20_race_ok_polls_all). Nests of combinators are instantiated by the harness and judged by the monitor and, in the conc-nest-sim suites, against the composed nest model (coq/Model/Nest.v, extracted; nothing is proved about nests as such)." + COMMON)
P["C04"]["text"] += COMMON
claim("C18", "DESIGN.md 6 C18",
      "Translator route: on every run the field structure of every struct/enum of the crate (259 types, macro-generated tuple variants included) and the auto-trait impls "
      "rustc synthesized for them are translated from nightly rustdoc JSON of the current tree into a generated Coq table; theorem C18_send_sync_preserved proves over that "
      "table, for every type and both traits, that rustc's impl is positive, that the predicate set the Coq rule table computes from the fields equals rustc's where-clauses, and "
      "that it consists only of 'child (or child output) is Send/Sync'; hand-written `unsafe impl Send/Sync` or negative impls are read like synthesized ones, and C18_every_type_decided proves that no type of the crate lacks an entry. Type parameters are opaque atoms, so every instantiation is covered. The futures of the async-fn drivers "
      "(for_each / try_for_each / collect) have no fields and are covered by concrete Send probes compiled against the current tree. The Coq content is a finite evaluation per "
      "type; the depth is in the exact comparison with rustc.",
      "translator (rustdoc JSON of the current tree -> generated Coq table) + Coq evaluation proof over the table, compared with rustc's synthesized auto-trait impls; rustc probes for the async fns")

CO = (" The model is an acceptor at await-resolution granularity (Model/CoStream.v); the check derives the event list (source items, closure calls with their "
      "arguments, completions, drops, result) from every run of the real drivers under random wake-only and adversarial schedules - 61 adapter stacks (every order of up to three of limit / take / enumerate / map, repeats of limit and take included; generated, tools/mkstacks.py) and, for each, Vec::into_co_stream() against a ready stream source, x "
      "for_each / try_for_each / collect into Vec / collect into Result<Vec<_>, E>, limits 1..3 and none, take 0..len+1, pending sources, failing and panicking closures, early drops - and requires "
      "that the acceptor accepts it; a monitor re-evaluates the property on every trace. The theorems hold for every accepted event list and every adapter "
      "configuration. Partial: the poll-level behaviour of futures_buffered::FuturesUnordered and of the compiler-generated async state machines is not "
      "modelled, only their observable events.")
claim("C13", "DESIGN.md 6 C13", "C13_within_limit (in-flight <= limit), C13_result_structured (a result only when nothing is in flight), C13_at_most_once (no closure called twice for an item), C13_nothing_after_end, C13_no_closure_future_outlives_the_operation (every closure future created in a history that ends with no work in flight - checked at the end of every trace - was completed or dropped within it). C13_at_least_once_each (when a result is returned without an error every taken item has been through every closure: exactly once)." + CO,
      "Coq proof of invariants over an acceptor + trace inclusion of the crate's observed runs")
claim("C14", "DESIGN.md 6 C14", "For try_for_each and collect::<Result<Vec<_>, E>>(): C14_stops_taking (no source item after an error is recorded), C14_error_is_genuine (the reported error was returned by a closure future of the run), C14_result_structured / C14_ok_means_exhausted / C14_collect_ok_means_exhausted (Ok only with no error, nothing in flight and, without take, an exhausted source), C14_cancelled_work_never_completes, C14_in_flight_futures_dropped_with_the_operation." + CO,
      "Coq proof of invariants over an acceptor + trace inclusion of the crate's observed runs")
claim("C15", "DESIGN.md 6 C15", "C15_enumerate_is_source_index, C15_source_items_numbered, C15_collect_all, C15_closures_once, C15_take_at_most / C15_take_exactly / C15_take_zero_takes_nothing (take(n): at most n items taken, result only after source end or n items or an error; take(0) takes none - the repaired behaviour)." + CO,
      "Coq proof of invariants over an acceptor + trace inclusion of the crate's observed runs")


def main():
    checks = []
    na = []
    for pid in sorted(P):
        e = P[pid]
        if e["claimed"]:
            checks.append(dict(
                property_id=pid,
                quick_cmd=f"./check {pid} --tier quick",
                thorough_cmd=f"./check {pid} --tier thorough",
                evidence_file=f"/verif/evidence/{pid}.json",
                replay_cmd_template="./check replay {path}",
                engine="coq+translator" if pid == "C18" else "coq+diff",
                level_claimed=dict(category="proof", text=e["text"], design_ref=e["ref"]),
                level_note=NOTE,
                technique=e["technique"]))
        else:
            na.append(dict(property_id=pid, reason=e["reason"]))
    m = {
        "version": 1,
        "setup_cmd": "./setup.sh",
        "hooks": {"guard": "futures_concurrency_verif",
                  "enable": "none needed: every check observes the crate through its public API with instrumented children and wakers "
                            "(harness/), built with plain `cargo build --release --offline` in three feature configurations",
                  "baseline_off_cmd": "cd /repo && cargo test --workspace --no-fail-fast --offline",
                  "source_commits": [], "add_only": True},
        "engines": [
            {"name": "coq+diff", "path": "coq/ runner/ harness/ tools/",
             "serves_properties": [c["property_id"] for c in checks if c["engine"] == "coq+diff"],
             "kind_free_text": "machine-checked proof in Coq 8.16.1 over an executable Gallina model, plus a differential correspondence "
                               "check that runs the extracted model and the crate on the same cases"},
            {"name": "coq+translator", "path": "coq/Model/AutoTraits.v tools/autotraits.py",
             "serves_properties": [c["property_id"] for c in checks if c["engine"] == "coq+translator"],
             "kind_free_text": "Coq evaluation of a table regenerated from the source on every run (rustdoc JSON -> Coq), compared with rustc's own answer"}],
        "checks": checks,
        "notes": "DESIGN.md explains the approach; known_findings.txt lists repaired defects (two fix: commits in /repo).",
        "not_applicable": na,
    }
    json.dump(m, open(os.path.join(ROOT, "MANIFEST.json"), "w"), indent=1)
    print(f"{len(checks)} checks, {len(na)} not claimed")


if __name__ == "__main__":
    main()
