#!/usr/bin/env python3
"""How much of /repo/src do the correspondence suites execute?  (generator quality, DESIGN 5.5)
   Builds the harness with `-C instrument-coverage` on the nightly toolchain (its llvm-tools match), runs every std case of every property's
   quick suites through fc-harness / co-harness, and prints llvm-cov's per-file report for the crate's sources plus the list of source lines that
   were never executed.  Support for the correspondence, not a check: exits 0.   usage: tools/coverage.py [--keep]
   Output: coverage/report.txt, coverage/unexecuted.txt (committed as a record of the run; regenerate after changing the generators)."""
import glob, os, random, re, shutil, subprocess, sys

ROOT = os.path.dirname(os.path.dirname(os.path.abspath(__file__)))
sys.path.insert(0, os.path.join(ROOT, "tools"))
import driver  # noqa: E402

W = os.path.join(ROOT, ".cache", "coverage")
shutil.rmtree(W, ignore_errors=True)
os.makedirs(os.path.join(W, "h"))
driver.build_harness("std")          # makes sure the generated crate directory exists
src = os.path.join(driver.CACHE, f"hsrc-{driver.REPO_TAG}")
for f in ("Cargo.toml", "Cargo.lock"):
    shutil.copy(os.path.join(src, f), os.path.join(W, "h", f))
shutil.copytree(os.path.join(ROOT, "harness", "src"), os.path.join(W, "h", "src"))
fc, co = [], []
for i in range(1, 21):
    pid = f"C{i:02d}"
    if pid == "C18":
        continue
    _, S = driver.suites_for(pid, random.Random(1), "quick")
    for (name, cfg, kind, cases) in S:
        if cfg == "std":
            if kind == "cov":
                co.extend(cases)
                co.extend(c.replace(" co:", " cov:", 1) for c in cases)
            else:
                (co if kind == "co" else fc).extend(cases)
env = dict(os.environ, CARGO_NET_OFFLINE="true", RUSTFLAGS="-C instrument-coverage",
           LLVM_PROFILE_FILE=os.path.join(W, "build-%p.profraw"))    # build scripts are instrumented too: keep their profiles out of the source trees
r = subprocess.run(["cargo", "+nightly", "build", "-q", "--offline", "--features", "fc-std", "--target-dir", os.path.join(W, "target")],
                   cwd=os.path.join(W, "h"), env=env, text=True, capture_output=True)
if r.returncode != 0:
    print("coverage build failed (nightly toolchain with llvm-tools needed):", r.stderr[-500:])
    sys.exit(0)
tool = glob.glob(os.path.expanduser("~/.rustup/toolchains/nightly-x86_64-unknown-linux-gnu/lib/rustlib/*/bin"))[0]
for name, cases in (("fc-harness", fc), ("co-harness", co)):
    subprocess.run([os.path.join(W, "target", "debug", name)], input="\n".join(cases) + "\n", text=True, capture_output=True,
                   env=dict(os.environ, LLVM_PROFILE_FILE=os.path.join(W, name + ".profraw")))
subprocess.run([os.path.join(tool, "llvm-profdata"), "merge", "-sparse", os.path.join(W, "fc-harness.profraw"), os.path.join(W, "co-harness.profraw"),
                "-o", os.path.join(W, "all.profdata")], check=True)
objs = ["-object", os.path.join(W, "target", "debug", "fc-harness"), "-object", os.path.join(W, "target", "debug", "co-harness")]
ign = "--ignore-filename-regex=(registry|rustc|rustup|/\\.cache/coverage/)"
rep = subprocess.run([os.path.join(tool, "llvm-cov"), "report", "-instr-profile=" + os.path.join(W, "all.profdata")] + objs + [ign],
                     text=True, capture_output=True).stdout
show = subprocess.run([os.path.join(tool, "llvm-cov"), "show", "-instr-profile=" + os.path.join(W, "all.profdata")] + objs + [ign],
                      text=True, capture_output=True).stdout
out = os.path.join(ROOT, "coverage")
os.makedirs(out, exist_ok=True)
lines = []
for l in rep.splitlines():
    m = re.match(r"(\S+)\s+(\d+)\s+(\d+)\s+([\d.]+%)\s+(\d+)\s+(\d+)\s+([\d.]+%)\s+(\d+)\s+(\d+)\s+([\d.]+%)", l)
    if m:
        lines.append(f"{m.group(1):60s} regions {m.group(2):>5s} missed {m.group(3):>4s} ({m.group(4):>7s})   lines {m.group(8):>5s} missed {m.group(9):>4s} ({m.group(10):>7s})")
open(os.path.join(out, "report.txt"), "w").write(
    f"cases: {len(fc)} through fc-harness, {len(co)} through co-harness (std build, quick tier, seed 1)\n" + "\n".join(lines) + "\n")
un, cur = [], None
for l in show.splitlines():
    if l.startswith("/") and l.rstrip().endswith(":"):
        cur = l.rstrip()[:-1]
    m = re.match(r"\s+(\d+)\|\s+0\|(.*)", l)      # merged view only (instantiation views are indented by `  |`)
    if m and cur:
        un.append(f"{cur}:{m.group(1)}: {m.group(2).strip()}")
open(os.path.join(out, "unexecuted.txt"), "w").write("\n".join(un) + "\n")
print(lines[-1] if lines else rep[-300:])
print(f"{len(un)} source lines never executed; see coverage/unexecuted.txt")
if "--keep" not in sys.argv:
    shutil.rmtree(W, ignore_errors=True)
