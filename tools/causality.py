#!/usr/bin/env python3
"""Model self-test for the argument of DESIGN 4 ("scripts are oblivious; real children are adaptive"): a step of a script has no influence on the
   model's trace unless a poll consumes it.  For every generated case of the flat fixed-arity combinators (and the nests) the model is run twice -
   on the case, and on the case with every step that no poll consumed replaced by junk (a different answer, extra wake-ups) - and the two traces
   must be identical.  It tests the extracted model only (no crate involved): support for the universality argument, not a proof and not a check
   of the crate.   usage: tools/causality.py [seed] [count]   (exit 1 and the first differing case if the model is not causal)"""
import os, random, re, sys
ROOT = os.path.dirname(os.path.dirname(os.path.abspath(__file__)))
sys.path.insert(0, os.path.join(ROOT, "tools"))
import driver, gen  # noqa: E402

JUNK = ["!s:P", "R977", "!s+0.0:R978", "X", "P", "I979", "E", "F9", "!1.0+s:I980"]


def mutate(rng, case, trace):
    """replace, in every script, the steps beyond the number of polls of that child in `trace` by junk (and append some)"""
    head, ops = case.split(" | ")
    parts = head.split(" ")
    if len(parts) < 5:
        return None
    scs = parts[4].split(";")
    polls = {}
    for tok in trace.split(" ")[1:]:
        m = re.match(r"c(\d+):", tok)
        if m:
            polls[int(m.group(1))] = polls.get(int(m.group(1)), 0) + 1
    out = []
    for i, sc in enumerate(scs):
        steps = sc.split(",") if sc else []
        k = polls.get(i, 0)
        if k > len(steps):
            out.append(sc)          # the script was exhausted and polled again: the model's default step was used; nothing may be appended
            continue
        out.append(",".join(steps[:k] + [rng.choice(JUNK) for _ in range(rng.randint(0, 3))]) if (k < len(steps) or rng.random() < 0.5) else sc)
    parts[4] = ";".join(out)
    return " ".join(parts) + " | " + ops


def run(seed=1, count=6000):
    rng = random.Random(seed)
    runner, _ = driver.build_runner()
    total = changed = 0
    kinds = {}
    for cfg in ("std", "alloc"):
        cases = gen.gen_fixed(rng, cfg, ("join", "try_join", "merge", "zip", "race", "race_ok", "chain"), count, "q" + cfg[0]) \
            + gen.gen_nest(rng, count // 3, "qn" + cfg[0], combs=("nest_jj", "nest_mm", "nest_jt", "nest_gj", "nest_gm", "nest_jr", "nest_rj", "nest_cm", "nest_zm", "nest_tt"))
        cases = [c for c in cases if c.split(" ")[3] != "n=0"]
        out, rc, err = driver.run_lines(runner, [cfg], cases)
        if len(out) != len(cases):
            return dict(status="model runner failed", cases=0), [(cfg, "model runner failed: " + err[-300:], None)]
        muts = [mutate(rng, c, t) for c, t in zip(cases, out)]
        idx = [i for i, m in enumerate(muts) if m and m != cases[i]]
        out2, rc, err = driver.run_lines(runner, [cfg], [muts[i] for i in idx])
        if len(out2) != len(idx):
            return dict(status="model runner failed", cases=0), [(cfg, "model runner failed on a mutated case: " + err[-300:], None)]
        for i, t2 in zip(idx, out2):
            total += 1
            k = cases[i].split(" ")[1]
            kinds[k] = kinds.get(k, 0) + 1
            if t2.split(" ")[1:] != out[i].split(" ")[1:]:
                return dict(status="NOT CAUSAL", cases=total), [(cfg, "the model's trace depends on a step no poll consumed:\n  case    " + cases[i] + "\n  mutated " + muts[i]
                                                                   + "\n  trace   " + out[i] + "\n  trace'  " + t2, cases[i])]
        changed += len(idx)
    return dict(status="ran", cases=total, distribution=kinds,
                note="the extracted model run on each case and on the case with every unconsumed step replaced by junk: identical traces"), []


if __name__ == "__main__":
    ev, fails = run(int(sys.argv[1]) if len(sys.argv) > 1 else 1, int(sys.argv[2]) if len(sys.argv) > 2 else 6000)
    print(ev)
    for f in fails:
        print(f[1])
    sys.exit(1 if fails else 0)
