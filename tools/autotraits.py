"""C18 - Send/Sync preserved.  TRANSLATOR route (DESIGN 6 C18): the model is regenerated from the source on every run.

  1. `cargo +nightly rustdoc ... --output-format json --document-private-items` on the repository's current tree (read in place, output under
     .cache/): every struct / enum of the crate, macro-generated tuple variants included, with resolved field types, plus the auto-trait impls
     rustc itself synthesized (where-clauses, polarity).
  2. translate into coq/Gen/AutoTraits_gen.v: one `ty` term per type (crate-local types expanded, associated types normalised through the type's
     own where-clause equalities) and, per (type, trait), the predicate set rustc synthesized.
  3. Properties/C18.v (static) proves, by evaluation over the generated table, for EVERY type of the crate: the predicate set computed by the Coq
     rule table equals rustc's, polarity agrees, and the type needs nothing but "child / child output is Send (resp. Sync)".
  4. concrete probes (harness/probe) for the futures of the async-fn drivers (for_each, try_for_each, collect), which have no fields.
"""
import json, os, re, shutil, sys, time

import driver
from driver import ROOT, REPO, CACHE, COQ, REPO_TAG, sh, Lock


def q(s):
    return '"' + s.replace('"', '') + '"'


def rustdoc_json():
    tgt = os.path.join(CACHE, f"rustdoc-{REPO_TAG}")
    locked = "--locked" if os.path.exists(os.path.join(REPO, "Cargo.lock")) else ""
    with Lock(f"rustdoc-{REPO_TAG}"):
        r = sh(f"CARGO_NET_OFFLINE=true timeout 1500 cargo +nightly rustdoc --manifest-path {REPO}/Cargo.toml --lib --offline {locked} --target-dir {tgt} "
               f"-- -Z unstable-options --output-format json --document-private-items 2>&1", timeout=1600)
    p = os.path.join(tgt, "doc", "futures_concurrency.json")
    if r.returncode != 0 or not os.path.exists(p):
        return None, r.stdout[-2000:]
    return p, ""


def translate(path):
    d = json.load(open(path))
    idx = d["index"]
    local = {}

    def assoc_eqs(gen):
        eqs = {}

        def scan(pname, bounds):
            for b in bounds or []:
                tb = b.get("trait_bound")
                if not tb:
                    continue
                a = (tb["trait"].get("args") or {}).get("angle_bracketed") or {}
                for c in a.get("constraints", []):
                    eq = (c.get("binding") or {}).get("equality") or {}
                    if "type" in eq:
                        eqs[(pname, c["name"])] = eq["type"]
        for g in gen["params"]:
            if "type" in g["kind"]:
                scan(g["name"], g["kind"]["type"].get("bounds"))
        for p in gen["where_predicates"]:
            bp = p.get("bound_predicate")
            if bp and "generic" in bp["type"]:
                scan(bp["type"]["generic"], bp["bounds"])
        return eqs

    def span(it):
        sp = it.get("span") or {}
        return f"{sp.get('filename', '?')}:{(sp.get('begin') or [0])[0]}"
    for i, it in idx.items():
        inner = it.get("inner", {})
        if it.get("crate_id") != 0:
            continue
        if "struct" in inner:
            st = inner["struct"]
            kind = st["kind"]
            if isinstance(kind, dict) and "plain" in kind:
                fids = kind["plain"].get("fields")
            elif isinstance(kind, dict) and "tuple" in kind:
                fids = [f for f in kind.get("tuple", []) if f is not None]
            else:
                fids = []
            fields = [(idx[str(f)].get("name") or str(k), idx[str(f)]["inner"]["struct_field"]) for k, f in enumerate(fids or []) if str(f) in idx]
            local[int(i)] = (it["name"], [g["name"] for g in st["generics"]["params"] if "type" in g["kind"]], fields, assoc_eqs(st["generics"]), span(it))
        elif "enum" in inner:
            en = inner["enum"]
            fields = []
            for v in en["variants"]:
                vk = idx[str(v)]["inner"]["variant"]["kind"]
                fids = vk.get("tuple") if isinstance(vk, dict) and "tuple" in vk else (vk.get("struct", {}).get("fields") if isinstance(vk, dict) and "struct" in vk else [])
                for f in (fids or []):
                    if f is not None and str(f) in idx:
                        fields.append((idx[str(v)].get("name", "?") + "." + (idx[str(f)].get("name") or "?"), idx[str(f)]["inner"]["struct_field"]))
            local[int(i)] = (it["name"], [g["name"] for g in en["generics"]["params"] if "type" in g["kind"]], fields, assoc_eqs(en["generics"]), span(it))

    def targs(args):
        out = []
        if args and "angle_bracketed" in args:
            for a in args["angle_bracketed"]["args"]:
                if "type" in a:
                    out.append(a["type"])
        return out

    def conv(t, env, depth=0, eqs=None):
        eqs = eqs or {}
        if depth > 12:
            return 'TBad "too deep"'
        if "generic" in t:
            return env.get(t["generic"], "TPar " + q(t["generic"]))
        if "primitive" in t:
            return "TPrim"
        if "qualified_path" in t:
            qp = t["qualified_path"]
            st = qp["self_type"]
            if "generic" in st and st["generic"] not in env and (st["generic"], qp["name"]) in eqs:
                return conv(eqs[(st["generic"], qp["name"])], env, depth + 1, eqs)
            if "generic" in st and st["generic"] in env and env[st["generic"]].startswith("TPar ") and (env[st["generic"]][6:-1], qp["name"]) in eqs:
                return conv(eqs[(env[st["generic"]][6:-1], qp["name"])], {}, depth + 1, eqs)
            if "generic" in st and st["generic"] not in env:
                return "TAssoc %s %s %s" % (q(st["generic"]), q(""), q(qp["name"]))
            if "generic" in st:
                inner = env[st["generic"]]
                if inner.startswith("TPar "):
                    return "TAssoc %s %s %s" % (inner[5:], q(""), q(qp["name"]))
            return 'TBad "associated type of a non-parameter"'
        if "array" in t:
            return "TAgg [%s]" % conv(t["array"]["type"], env, depth + 1, eqs)
        if "slice" in t:
            return "TAgg [%s]" % conv(t["slice"], env, depth + 1, eqs)
        if "tuple" in t:
            return "TAgg [%s]" % "; ".join(conv(x, env, depth + 1, eqs) for x in t["tuple"])
        if "borrowed_ref" in t:
            br = t["borrowed_ref"]
            return ("TAgg [%s]" if br.get("is_mutable") else "TShRef (%s)") % conv(br["type"], env, depth + 1, eqs)
        if "raw_pointer" in t:
            return 'TBad "raw pointer"'
        if "dyn_trait" in t:
            return 'TBad "trait object"'
        if "resolved_path" in t:
            rp = t["resolved_path"]
            args = [conv(a, env, depth + 1, eqs) for a in targs(rp.get("args"))]
            if rp["id"] in local:
                name, params, fields, _, _ = local[rp["id"]]
                env2 = dict(zip(params, args))
                return "TAgg [%s]" % "; ".join(conv(f, env2, depth + 1, eqs) for (_, f) in fields)
            return "TExt %s [%s]" % (q(rp["path"]), "; ".join(args))
        return "TBad %s" % q(list(t.keys())[0])

    def show_ty(t):
        if "generic" in t:
            return "APar " + q(t["generic"])
        if "qualified_path" in t:
            qp = t["qualified_path"]
            if "generic" in qp["self_type"]:
                return "AAssoc %s %s %s" % (q(qp["self_type"]["generic"]), q(""), q(qp["name"]))
        return None
    synth = {}
    explicit = []
    for it in idx.values():
        inner = it.get("inner", {})
        # the impl rustc synthesized - or an impl somebody WROTE (`unsafe impl Send for ..`, `impl !Sync for ..`): a hand-written impl replaces the
        # synthesized one in rustdoc's output and is held to the same standard (its bounds must be exactly the structural ones)
        if "impl" in inner:
            im = inner["impl"]
            tr = (im.get("trait") or {}).get("path")
            if tr in ("Send", "Sync") and "resolved_path" in im["for"] and im["for"]["resolved_path"]["id"] in local:
                preds = []
                ok = True

                def bounds_of(a, bounds):
                    nonlocal ok
                    for b in bounds or []:
                        tp = (b.get("trait_bound") or {}).get("trait", {}).get("path")
                        if tp in ("Send", "Sync") and a:
                            preds.append("(%s, %s)" % (a, "true" if tp == "Send" else "false"))
                        elif tp in ("Send", "Sync"):
                            ok = False
                for p in im["generics"]["where_predicates"]:
                    bp = p.get("bound_predicate")
                    if bp:
                        bounds_of(show_ty(bp["type"]), bp["bounds"])
                for gp in im["generics"].get("params", []):       # impl<S: Stream + Send> ...
                    kind = gp.get("kind", {})
                    if "type" in kind:
                        bounds_of(show_ty({"generic": gp["name"]}), kind["type"].get("bounds"))
                key = (im["for"]["resolved_path"]["id"], tr)
                if key in synth and not im.get("is_synthetic"):
                    pass      # keep the first; two impls of one auto trait cannot coexist anyway
                synth[key] = (bool(im.get("is_negative")), preds, ok)
                if not im.get("is_synthetic"):
                    explicit.append((im["for"]["resolved_path"].get("path") or im["for"]["resolved_path"].get("name"), tr))
    out = ["(* GENERATED by tools/autotraits.py from the rustdoc JSON of the repository's current tree - do not edit, not committed. *)",
           "From Coq Require Import List String Bool.", "Import ListNotations.", "Require Import AutoTraits.", "Open Scope string_scope.", "Open Scope list_scope.", ""]
    entries = []
    info = {}
    for ordn, (i, (name, params, fields, eqs, where)) in enumerate(sorted(local.items())):
        term = "TAgg [%s]" % "; ".join(conv(f, {}, 0, eqs) for (_, f) in fields)
        out.append("Definition T%d : ty := %s.   (* %s<%s> %s *)" % (i, term, name, ", ".join(params), where))
        info[ordn] = dict(name=name, params=params, where=where, fields=[fn for (fn, _) in fields], rustc={})
        for tr, flag in (("Send", "true"), ("Sync", "false")):
            if (i, tr) not in synth:
                continue
            neg, preds, ok = synth[(i, tr)]
            info[ordn]["rustc"][tr] = ("impl !%s" % tr) if neg else ("impl %s where %s" % (tr, ", ".join(preds) or "(nothing)"))
            # entry: (id, name, send?, type, rustc negative?, rustc predicate set, rustc where-clauses parsed completely?)
            entries.append("mk_entry %d %s %s T%d %s [%s] %s" % (ordn, q(name), flag, i, "true" if neg else "false", "; ".join(preds), "true" if ok else "false"))
    out.append("")
    out.append("Definition crate_types : list entry :=\n  [ " + ";\n    ".join(entries) + " ].")
    out.append("(* the number of struct / enum / union types of the crate: every one of them must have a Send and a Sync entry above *)")
    out.append("Definition n_types : nat := %d." % len(local))
    out.append("(* impls of Send / Sync written by hand in the source: %s *)" % (", ".join("%s for %s" % (t, n) for (n, t) in explicit) or "none"))
    return "\n".join(out) + "\n", info, len(entries)


def generate():
    """regenerate coq/Gen/AutoTraits_gen.v from the current tree; returns (info, n_entries) or raises"""
    p, err = rustdoc_json()
    if p is None:
        raise RuntimeError("rustdoc JSON could not be produced:\n" + err)
    text, info, n = translate(p)
    os.makedirs(os.path.join(COQ, "Gen"), exist_ok=True)
    gp = os.path.join(COQ, "Gen", "AutoTraits_gen.v")
    with Lock("coq"):
        if not os.path.exists(gp) or open(gp).read() != text:
            open(gp, "w").write(text)
    return info, n


PROBE_OK = """
#![allow(dead_code, unused)]
use futures_concurrency::prelude::*;
use futures_concurrency::concurrent_stream::ConcurrentStream;
use futures_core::Stream;
use std::future::Future;
fn assert_send<T: Send>(_: T) {}
fn for_each<S, F, Fut>(s: S, f: F) where S: Stream + Send, S::Item: Send, F: Fn(S::Item) -> Fut + Clone + Send, Fut: Future<Output = ()> + Send {
    assert_send(s.co().for_each(f));
}
fn for_each_limit<S, F, Fut>(s: S, f: F) where S: Stream + Send, S::Item: Send, F: Fn(S::Item) -> Fut + Clone + Send, Fut: Future<Output = ()> + Send {
    assert_send(s.co().limit(std::num::NonZeroUsize::new(2)).for_each(f));
}
fn try_for_each<S, F, Fut, E>(s: S, f: F) where S: Stream + Send, S::Item: Send, E: Send, F: Fn(S::Item) -> Fut + Clone + Send, Fut: Future<Output = Result<(), E>> + Send {
    assert_send(s.co().try_for_each(f));
}
fn collect<S>(s: S) where S: Stream + Send, S::Item: Send {
    assert_send(s.co().collect::<Vec<_>>());
}
fn collect_map<S, F, Fut, T>(s: S, f: F) where S: Stream + Send, S::Item: Send, T: Send, F: Fn(S::Item) -> Fut + Send + Sync + Clone, Fut: Future<Output = T> + Send {
    assert_send(s.co().map(f).collect::<Vec<_>>());
}
fn collect_enumerate_take<S>(s: S) where S: Stream + Send, S::Item: Send {
    assert_send(s.co().enumerate().take(3).collect::<Vec<_>>());
}
fn vec_source<T: Send>(v: Vec<T>) {
    assert_send(v.into_co_stream().collect::<Vec<_>>());
}
fn main() {}
"""


def probes():
    """positive probes for the async-fn drivers: with Send children the returned futures must be Send"""
    pd = os.path.join(CACHE, f"probe-{REPO_TAG}")
    os.makedirs(os.path.join(pd, "src"), exist_ok=True)
    man = f'''[package]
name = "fc-probe"
version = "0.0.0"
edition = "2021"
[workspace]
[dependencies]
futures-concurrency = {{ path = "{REPO}" }}
futures-core = "0.3"
'''
    if not os.path.exists(os.path.join(pd, "Cargo.toml")) or open(os.path.join(pd, "Cargo.toml")).read() != man:
        open(os.path.join(pd, "Cargo.toml"), "w").write(man)
    open(os.path.join(pd, "src", "main.rs"), "w").write(PROBE_OK)
    if not os.path.exists(os.path.join(pd, "Cargo.lock")):
        src = os.path.join(REPO, "Cargo.lock")
        shutil.copy(src if os.path.exists(src) else os.path.join(ROOT, "harness", "Cargo.lock.ref"), os.path.join(pd, "Cargo.lock"))
    with Lock(f"probe-{REPO_TAG}"):
        r = sh(f"cd {pd} && CARGO_NET_OFFLINE=true timeout 1500 cargo check -q --offline --target-dir {CACHE}/target-probe-{REPO_TAG} --message-format=short 2>&1", timeout=1600)
    names = re.findall(r"^fn (\w+)<", PROBE_OK, re.M)
    errors = [l for l in r.stdout.splitlines() if "error" in l]
    return names, r.returncode, errors, r.stdout[-3000:]


def decide(tier, seed):
    t0 = time.time()
    pid = "C18"
    problems = []
    found = []
    info, n = {}, 0
    try:
        info, n = generate()
    except Exception as ex:
        problems.append(f"translator: {ex}")
    pr = driver.check_proofs(pid, tier) if not problems else dict(ok=False, why="not built", obligations=0, discharged=0, theorems=[], examples=[])
    failing = []
    if not problems and not pr["ok"]:
        # which types break? evaluate the per-entry verdicts inside Coq
        probe_v = os.path.join(CACHE, "c18_failing.v")
        open(probe_v, "w").write("From Coq Require Import List String Bool.\nImport ListNotations.\nRequire Import AutoTraits AutoTraits_gen.\n"
                                 "Eval vm_compute in map (fun e => (e_id e, e_send e, agrees e, only_children (e_send e) (needs (e_send e) (e_ty e)))) "
                                 "(filter (fun e => negb (entry_ok e)) crate_types).\n")
        driver.coq_make(["Gen/AutoTraits_gen.vo"])        # takes the coq lock itself
        with Lock("coq"):
            r = sh(f"cd {COQ} && timeout 600 coqc -R . FC {probe_v} 2>&1")
        for m in re.finditer(r"\((\d+), (true|false), (true|false), (true|false)\)", r.stdout):
            i, send, agree, prop = int(m.group(1)), m.group(2) == "true", m.group(3) == "true", m.group(4) == "true"
            e = info.get(i, {})
            tr = "Send" if send else "Sync"
            failing.append(dict(type=e.get("name"), where=e.get("where"), trait=tr, fields=e.get("fields"), rustc=e.get("rustc", {}).get(tr),
                                model_agrees_with_rustc=agree, needs_only_children=prop))
        found = [f for f in failing if not f["needs_only_children"]]
    names, rc, errors, log = probes()
    if rc != 0:
        problems.append("probes")
    violation = bool(problems) or not pr["ok"]
    replay = None
    if violation:
        os.makedirs(os.path.join(ROOT, "replays"), exist_ok=True)
        replay = os.path.join(ROOT, "replays", f"{pid}-{tier}-{seed}.replay")
        with open(replay, "w") as f:
            f.write(f"# property C18  repository {REPO}\n")
            for p in problems:
                f.write(f"PROBLEM {p}\n")
            if not pr["ok"]:
                f.write(f"PROOF   Properties/C18.v no longer checks over the table regenerated from the source: {pr['why']}\n")
            for x in failing:
                f.write(f"TYPE    {x['type']} ({x['where']}) trait {x['trait']}: rustc synthesized `{x['rustc']}`; fields {x['fields']}; "
                        f"the Coq rule table {'agrees' if x['model_agrees_with_rustc'] else 'DISAGREES'} with rustc; "
                        f"needs only 'children are {x['trait']}': {x['needs_only_children']}\n")
            if rc != 0:
                f.write("PROBES  with Send children the futures of the concurrent-stream drivers must be Send; rustc says:\n" + "\n".join(errors[:20]) + "\n" + log[-1500:] + "\n")
                found.append("probe")
        print(f"VIOLATION property={pid} replay={replay}" + ("" if found else " no-failing-input-found"))
    if not violation:
        stale = os.path.join(ROOT, "replays", f"{pid}-{tier}-{seed}.replay")
        if os.path.exists(stale):
            os.unlink(stale)
    samples = [dict(type=v["name"], defined_at=v["where"], rustc=v["rustc"]) for k, v in sorted(info.items()) if v["name"] in ("Join", "Merge", "FutureGroup", "RaceOk", "Zip", "Keyed")][:6]
    ev = dict(property_id=pid, tier=tier, seed=seed, level="proof", wall_s=round(time.time() - t0, 2), violations=(1 if violation else 0),
              coverage=dict(obligations=pr["obligations"] + len(names), discharged=pr["discharged"] + (len(names) if rc == 0 else 0),
                            checker_cmd="tools/autotraits.py: cargo +nightly rustdoc (JSON) -> coq/Gen/AutoTraits_gen.v; make -C coq Properties/C18.vo; cargo check of the probe crate",
                            trusted_base=["Coq 8.16.1 kernel; vm_compute for the finite evaluation over the generated table; no axioms",
                                          "the translator tools/autotraits.py (rustdoc JSON -> Coq table) and nightly rustdoc's JSON output",
                                          "the std auto-trait rules as transcribed in coq/Model/AutoTraits.v (rule_of): compared with rustc's own synthesized impl for every type of the crate on every run",
                                          "rustc's trait solver (the oracle of the comparison and of the probes)"],
                            theorems=pr["theorems"], types=len(info), type_trait_pairs=n, probes=names, programs=n, disagreements_checked=len(failing),
                            evaluations=n + len(names), distinct_nontrivial=n, rule="every struct and enum of the crate (macro-generated tuple variants included) x {Send, Sync}; all are distinct; non-trivial = has a synthesized auto-trait impl to compare with",
                            samples=samples or [dict(note="no table")], exhaustive=True, proof_status=("ok" if pr["ok"] else pr["why"])),
              assumptions=["nightly rustdoc JSON reflects the types rustc compiles", "atoms (type parameters and their associated types) are opaque: parametricity in the child types"])
    # evidence belongs to /repo itself; a run against another tree (VERIF_REPO) writes under .cache/ instead
    evdir = os.path.join(ROOT, "evidence") if REPO == "/repo" else os.path.join(CACHE, "evidence-" + REPO_TAG)
    os.makedirs(evdir, exist_ok=True)
    json.dump(ev, open(os.path.join(evdir, pid + ".json"), "w"), indent=1)
    print(f"C18 tier={tier} types={len(info)} pairs={n} proofs={'ok' if pr['ok'] else 'BROKEN'} probes={'ok' if rc == 0 else 'FAIL'} wall={time.time()-t0:.1f}s")
    return 1 if violation else 0


if __name__ == "__main__":
    if len(sys.argv) > 1 and sys.argv[1] == "generate":
        info, n = generate()
        print("generated", n, "entries for", len(info), "types")
