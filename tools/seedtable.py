#!/usr/bin/env python3
"""Regenerate the table of DESIGN.md section 11 from seeded/*/meta.json (in place).  usage: tools/seedtable.py"""
import glob, json, os, re
ROOT = os.path.dirname(os.path.dirname(os.path.abspath(__file__)))
rows = []
for mf in glob.glob(os.path.join(ROOT, "seeded", "*", "meta.json")):
    m = json.load(open(mf))
    files = [re.sub(r"^(future|stream)/", "", f[len("src/"):] if f.startswith("src/") else f) for f in m.get("files_changed", [])]
    al = m.get("checks_raising_alarm", {})
    found = " ".join(sorted(k for k, v in al.items() if v == "FOUND-INPUT")) or "-"
    only = " ".join(sorted(k for k, v in al.items() if v != "FOUND-INPUT")) or "-"
    rows.append((m["breaks_property"], m["name"], f"| {m['breaks_property']} | `{m['name']}` ({', '.join(files)}) | {m['needs_to_manifest']} | {found} | {only} |"))
rows.sort()
p = os.path.join(ROOT, "DESIGN.md")
s = open(p).read()
head = "| property | change (`seeded/<name>`) | needs, to manifest | checks that found a failing input | alarm only |\n|---|---|---|---|---|\n"
i = s.index(head) + len(head)
j = s.index("\n\n", i)
s = s[:i] + "\n".join(r[2] for r in rows) + s[j:]
open(p, "w").write(s)
own = sum(1 for mf in glob.glob(os.path.join(ROOT, "seeded", "*", "meta.json")) if json.load(open(mf)).get("own_check_verdict") == "FOUND-INPUT")
print(len(rows), "rows;", own, "with a failing input from the check of their own property")
