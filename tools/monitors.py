"""Monitors: the properties as executable predicates over ONE observed trace of the implementation (plus its case).

They serve the failing-input search (DESIGN 5.4): when the correspondence or a proof obligation breaks, the driver evaluates
the monitor of the property on every implementation trace it has; a failure is a concrete input on which the property itself
fails.  They are also evaluated on every trace of every ordinary run (a failure there is reported as a violation as well: the
implementation concretely breaks the property's executable reading).  They are NOT the proof: the theorems are in coq/Properties.

Each monitor: fn(case: Case, toks: list[str]) -> None | str (what fails).
"""
import re


class Case:
    def __init__(self, line):
        self.line = line
        head, _, ops = line.partition(" | ")
        hp = head.split(" ")
        self.id, self.comb, self.cont = hp[0], hp[1], hp[2]
        self.is_co = self.comb.startswith("co:")
        if self.is_co:
            # ID co:<stack>:<term> take=.. lim=.. n=.. scripts
            # an adapter applied twice lists both arguments, the one nearer the source first: the smaller take and the outer limit are in force
            self.take = None if hp[2] == "take=-" else min(int(x) for x in hp[2][5:].split(","))
            self.lim = None if hp[3] == "lim=-" else int(hp[3][4:].split(",")[-1])
            self.n = int(hp[4][2:])
            sc = hp[5] if len(hp) > 5 else ""
            _, self.stack, self.term = self.comb.split(":")
        else:
            self.n = int(hp[3][2:])
            sc = hp[4] if len(hp) > 4 else ""
        self.is_group = self.cont == "group"
        self.scripts = [] if (self.is_group or (self.n == 0 and not self.is_co)) else [s.split(",") if s else [] for s in sc.split(";")]
        self.ops = [o for o in ops.split(" ") if o]
        self.stream = self.comb in ("merge", "zip", "chain", "wait_stream", "sgroup", "sgroup_keyed")


def ints(s):
    return [int(x) for x in s.split(",") if x]


def parse_ret(t):
    """E:... -> (kind, key, values)"""
    b = t[2:]
    if b == "P":
        return ("P", None, [])
    if b == "N":
        return ("N", None, [])
    if b == "X":
        return ("X", None, [])
    if b.startswith("F"):
        return ("F", None, [int(b[1:])])
    m = re.match(r"([ROGS])(?:@(\d+))?\[(.*)\]$", b)
    if not m:
        return ("?", None, [])
    return (m.group(1), None if m.group(2) is None else int(m.group(2)), ints(m.group(3)))


class Tr:
    """a parsed trace: list of events (kind, ...)"""

    def __init__(self, toks):
        ev = []
        for t in toks:
            c = t[0]
            if c == "B":
                ev.append(("B", int(t[1:])))
            elif t.startswith("E:"):
                ev.append(("E",) + parse_ret(t))
            elif c == "c" and ":" in t:
                i = t.index(":")
                ev.append(("c", int(t[1:i]), t[i + 1:]))
            elif c == "=":
                a = t[1]
                ev.append(("a", a, int(t[2:]) if len(t) > 2 else None))
            elif c == "f" and "." in t:
                x, y = t[1:].split(".")
                ev.append(("f", int(x), int(y)))
            elif c == "W":
                ev.append(("W", int(t[1:])))
            elif t == "o":
                ev.append(("o",))
            elif t == "d":
                ev.append(("d",))
            elif c == "D":
                ev.append(("D", int(t[1:])))
            elif c == "V":
                ev.append(("V", int(t[1:])))
            elif c == "K":
                ev.append(("K", int(t[1:])))
            elif t == "k":
                ev.append(("K", None))       # a member inserted through Extend::extend: its key is not reported
            elif c == "N":
                ev.append(("N", int(t[1:])))
            elif t == "T":
                ev.append(("q", True))
            elif t == "F":
                ev.append(("q", False))
            else:
                ev.append(("?", t))
        self.ev = ev


def child_polls(tr):
    """[(child, label, answer_kind, value, poll_index)] in order; poll_index = which B..E it happened in"""
    out = []
    cur = None
    pidx = -1
    for e in tr.ev:
        if e[0] == "B":
            pidx += 1
        elif e[0] == "c":
            cur = (e[1], e[2])
        elif e[0] == "a" and cur is not None:
            out.append((cur[0], cur[1], e[1], e[2], pidx))
            cur = None
    return out


def polls(tr):
    """list of polls: dict(pid, cps=[(child,label,ans,val)], ret=(kind,key,vals) | None)"""
    out = []
    cur = None
    pend = None
    for e in tr.ev:
        if e[0] == "B":
            cur = dict(pid=e[1], cps=[], ret=None)
            out.append(cur)
        elif e[0] == "c" and cur is not None:
            pend = (e[1], e[2])
        elif e[0] == "a" and cur is not None and pend is not None:
            cur["cps"].append((pend[0], pend[1], e[1], e[2]))
            pend = None
        elif e[0] == "E" and cur is not None:
            cur["ret"] = e[1:]
            cur = None
    return out


# ------------------------------------------------------------------------------------------------ C02
def mon_C02(case, toks):
    tr = Tr(toks)
    if case.is_co:
        return None
    produced = {}
    returned = {}
    dropped_v = {}
    dropped_c = {}
    inserted = 0
    for e in tr.ev:
        if e[0] == "a" and e[1] in ("R", "I"):
            produced[e[2]] = produced.get(e[2], 0) + 1
        elif e[0] == "E" and e[1] in ("R", "O", "S"):
            for v in e[3]:
                returned[v] = returned.get(v, 0) + 1
        elif e[0] == "V":
            dropped_v[e[1]] = dropped_v.get(e[1], 0) + 1
        elif e[0] == "D":
            dropped_c[e[1]] = dropped_c.get(e[1], 0) + 1
        elif e[0] == "K":
            inserted += 1
    nchild = inserted if case.is_group else case.n
    for c in range(nchild):
        k = dropped_c.get(c, 0)
        if k != 1:
            return f"child {c} dropped {k} times (must be exactly once by the time the combinator's drop has returned)"
    for c in dropped_c:
        if c >= nchild:
            return f"drop event for a child {c} that was never handed in"
    if case.comb == "race_ok":
        # error values are plain integers in the harness (no drop events); Ok values are tracked
        pass
    for v in set(produced) | set(returned) | set(dropped_v):
        p, r, d = produced.get(v, 0), returned.get(v, 0), dropped_v.get(v, 0)
        if r > p:
            return f"value {v} returned {r} times but produced {p} times (returned without having been produced)"
        if p != r + d:
            return f"value {v}: produced {p}, returned {r}, dropped {d} (every produced value is returned xor dropped exactly once)"
    # no child outlives the combinator: after the last `d` every child is gone; the harness drops at the end, so equivalent to the counts above
    return None


# ------------------------------------------------------------------------------------------------ C03
def mon_C03(case, toks):
    tr = Tr(toks)
    if case.is_co:
        return None
    done = set()
    gone = set()
    inpoll = False
    cur = None
    for e in tr.ev:
        if e[0] == "B":
            inpoll = True
        elif e[0] == "E":
            inpoll = False
        elif e[0] == "c":
            cur = e[1]
            if not inpoll:
                return f"child {cur} polled outside a poll of its combinator"
            if cur in done:
                return f"child {cur} polled again after it completed"
            if cur in gone:
                return f"child {cur} polled after it was dropped"
        elif e[0] == "a":
            fut_child = (not case.stream) or (case.comb == "wait_stream" and cur == 0)
            if e[1] in ("R", "F") and fut_child:
                done.add(cur)
            if e[1] == "E":
                done.add(cur)
        elif e[0] == "D":
            gone.add(e[1])
    return None


# ------------------------------------------------------------------------------------------------ C04 / C05
def _join_like(case, toks, tryj):
    tr = Tr(toks)
    n = case.n
    vals = {}
    first_err = None
    for p in polls(tr):
        for (c, _, a, v) in p["cps"]:
            if first_err is not None:
                return f"child {c} polled after the failure of child {first_err[0]} had been seen"
            if a == "R":
                if c in vals:
                    return f"child {c} completed twice"
                vals[c] = v
            elif a == "F" and tryj:
                first_err = (c, v)
        ret = p["ret"]
        if ret is None:
            continue
        kind = ret[0]
        if kind == "X":
            return None
        want_kind = "O" if tryj else "R"
        if first_err is not None:
            if not (kind == "F" and ret[2] == [first_err[1]]):
                return f"child {first_err[0]} failed with {first_err[1]} in this poll but the poll returned {kind}{ret[2]}"
            return None
        if len(vals) == n:
            if kind != want_kind:
                return f"all {n} children have resolved by the end of this poll but it returned {kind}"
            want = [vals[i] for i in range(n)]
            if ret[2] != want:
                return f"returned {ret[2]}, the children's own outputs by position are {want}"
            return None
        if kind != "P":
            return f"returned {kind}{ret[2]} although only {sorted(vals)} of {n} children have resolved"
    return None


def mon_C04(case, toks):
    return _join_like(case, toks, False) if case.comb == "join" else None


def mon_C05(case, toks):
    if case.comb != "try_join":
        return None
    r = _join_like(case, toks, True)
    if r:
        return r
    # values already produced by other children are dropped rather than returned
    tr = Tr(toks)
    failed = any(e[0] == "E" and e[1] == "F" for e in tr.ev)
    if failed:
        prod = [e[2] for e in tr.ev if e[0] == "a" and e[1] == "R"]
        dropped = [e[1] for e in tr.ev if e[0] == "V"]
        if sorted(prod) != sorted(dropped):
            return f"after the failure the values produced {sorted(prod)} are not exactly the values dropped {sorted(dropped)}"
    return None


def spurious_unwind(p, what):
    """a poll that unwinds (E:X) although no child's poll panicked in it: no property lets a combinator panic by itself
       (theorems Cxx_*_unwinds_only_on_child_panic for race, race_ok, chain, wait_until; poll_live for the scan family)"""
    if p["ret"] is not None and p["ret"][0] == "X" and not any(a == "X" for (_, _, a, _) in p["cps"]):
        return f"{what} unwound in a poll in which no child panicked"
    return None


# ------------------------------------------------------------------------------------------------ C06 / C07
def mon_C06(case, toks):
    if case.comb != "race":
        return None
    tr = Tr(toks)
    won = None
    for p in polls(tr):
        for (c, _, a, v) in p["cps"]:
            if won is not None:
                return f"child {c} polled after child {won[0]} had resolved"
            if a == "R":
                won = (c, v)
        ret = p["ret"]
        if case.n > 0 and spurious_unwind(p, "race"):        # (a race over zero futures panics, as documented)
            return spurious_unwind(p, "race")
        if ret is None or ret[0] == "X":
            return None if ret else None
        if won is not None:
            if not (ret[0] == "R" and ret[2] == [won[1]]):
                return f"child {won[0]} resolved with {won[1]} in this poll but the race returned {ret[0]}{ret[2]}"
            break
        if ret[0] != "P":
            return f"race returned {ret[0]}{ret[2]} although no child has resolved"
    if won is not None:
        done = [e for e in tr.ev if e[0] == "a" and e[1] == "R"]
        if len(done) != 1:
            return "more than one child resolved"
    return None


def mon_C07(case, toks):
    if case.comb != "race_ok":
        return None
    tr = Tr(toks)
    n = case.n
    errs = {}
    won = None
    for p in polls(tr):
        for (c, _, a, v) in p["cps"]:
            if won is not None:
                return f"child {c} polled after child {won[0]} had succeeded"
            if c in errs:
                return f"child {c} polled again after it had failed"
            if len(errs) == n:
                return f"child {c} polled after every child had failed"
            if a == "R":
                won = (c, v)
            elif a == "F":
                errs[c] = v
        ret = p["ret"]
        if ret is None:
            return None
        if ret[0] == "X":
            if any(a == "X" for (_, _, a, _) in p["cps"]):
                return None           # a child's panic propagates
            return "race_ok unwound in a poll in which no child panicked" + (" (racing zero futures must yield the empty aggregate error)" if n == 0 else "")
        if won is not None:
            if not (ret[0] == "O" and ret[2] == [won[1]]):
                return f"child {won[0]} succeeded with {won[1]} in this poll but race_ok returned {ret[0]}{ret[2]}"
            return None
        if len(errs) == n:
            want = [errs[i] for i in range(n)]
            if not (ret[0] == "G" and ret[2] == want):
                return f"all children failed; aggregate by position should be {want}, returned {ret[0]}{ret[2]}"
            return None
        if ret[0] != "P":
            return f"race_ok returned {ret[0]}{ret[2]} with {len(errs)} of {n} failed and no success"
    return None


# ------------------------------------------------------------------------------------------------ C08
def mon_C08(case, toks):
    if case.comb != "merge":
        return None
    tr = Tr(toks)
    n = case.n
    ended = set()
    for p in polls(tr):
        item = None
        for (c, _, a, v) in p["cps"]:
            if item is not None:
                return f"input {c} polled after input {item[0]} had yielded {item[1]} in the same poll (merge must return it at once)"
            if a == "I":
                item = (c, v)
            elif a == "E":
                ended.add(c)
        ret = p["ret"]
        if spurious_unwind(p, "merge"):
            return spurious_unwind(p, "merge")
        if ret is None or ret[0] == "X":
            return None
        if item is not None:
            if not (ret[0] == "S" and ret[2] == [item[1]]):
                return f"input {item[0]} produced {item[1]} in this poll but merge returned {ret[0]}{ret[2]}"
        elif len(ended) == n:
            if ret[0] != "N":
                return f"all {n} inputs have ended but merge returned {ret[0]}{ret[2]}"
            return None
        elif ret[0] != "P":
            return f"merge returned {ret[0]}{ret[2]} although no polled input had an item and {n - len(ended)} inputs have not ended"
    return None


# ------------------------------------------------------------------------------------------------ C09
def mon_C09(case, toks):
    if case.comb != "zip":
        return None
    tr = Tr(toks)
    n = case.n
    items = {i: [] for i in range(n)}
    rows = []
    for p in polls(tr):
        ended = None
        for (c, _, a, v) in p["cps"]:
            if ended is not None:
                return f"input {c} polled after input {ended} was found to have ended"
            if a == "I":
                items[c].append(v)
            elif a == "E":
                ended = c
        ret = p["ret"]
        if spurious_unwind(p, "zip"):
            return spurious_unwind(p, "zip")
        if ret is None or ret[0] == "X":
            return None
        if ended is not None:
            if ret[0] != "N":
                return f"input {ended} ended in this poll but zip returned {ret[0]}{ret[2]}"
            break
        k = len(rows)
        have = all(len(items[i]) > k for i in range(n))
        if have:
            want = [items[i][k] for i in range(n)]
            if not (ret[0] == "S" and ret[2] == want):
                return f"row {k} is complete {want} but zip returned {ret[0]}{ret[2]}"
            rows.append(want)
        elif ret[0] != "P":
            return f"zip returned {ret[0]}{ret[2]} although row {k} is incomplete"
        for i in range(n):
            if len(items[i]) > len(rows) + 1:
                return f"input {i} was polled for a second item beyond row {len(rows)}"
    # unmatched items are dropped, never yielded
    dropped = sorted(e[1] for e in tr.ev if e[0] == "V")
    unmatched = sorted(v for i in range(n) for v in items[i][len(rows):])
    if dropped != unmatched:
        return f"unmatched items {unmatched} should be exactly the dropped values {dropped}"
    return None


# ------------------------------------------------------------------------------------------------ C10
def mon_C10(case, toks):
    if case.comb != "chain":
        return None
    tr = Tr(toks)
    n = case.n
    idx = 0
    for p in polls(tr):
        got = None
        for (c, _, a, v) in p["cps"]:
            if got is not None:
                return f"input {c} polled after an item had been obtained in the same poll"
            if c != idx:
                return f"input {c} polled while the current input is {idx}"
            if a == "I":
                got = v
            elif a == "E":
                idx += 1
        ret = p["ret"]
        if spurious_unwind(p, "chain"):
            return spurious_unwind(p, "chain")
        if ret is None or ret[0] == "X":
            return None
        if got is not None:
            if not (ret[0] == "S" and ret[2] == [got]):
                return f"input produced {got} but chain returned {ret[0]}{ret[2]}"
        elif idx >= n:
            if ret[0] != "N":
                return f"the last input has ended but chain returned {ret[0]}{ret[2]}"
            return None
        elif ret[0] != "P":
            return f"chain returned {ret[0]}{ret[2]} with input {idx} of {n} still running and no item"
    return None


# ------------------------------------------------------------------------------------------------ C11 / C12 (op-aligned)
def _groups(case, toks, want_stream):
    if not case.is_group or case.comb.startswith("s") != want_stream:
        return None
    keyed = case.comb.endswith("keyed")
    tr = Tr(toks)
    ev = tr.ev
    pos = 0
    members = []        # key per member
    alive = {}          # member -> key
    cap_seen = None
    valowner = {}

    def nxt():
        nonlocal pos
        if pos < len(ev):
            e = ev[pos]
            pos += 1
            return e
        return None
    dropped = False
    for op in case.ops:
        if op in ("p", "q"):
            if dropped:
                continue
            e = nxt()
            if e is None or e[0] != "B":
                return f"expected the begin of a poll at op {op}"
            cur = None
            yielded_this = None
            while True:
                e = nxt()
                if e is None:
                    return "trace ends inside a poll"
                if e[0] == "c":
                    cur = e[1]
                    if cur not in alive:
                        return f"member {cur} polled although it is not in the group (completed, ended or removed)"
                elif e[0] == "a":
                    if e[1] in ("R", "I"):
                        valowner[e[2]] = cur
                        yielded_this = (cur, e[2])
                    if e[1] == "X":
                        pass
                elif e[0] == "D":
                    if e[1] in alive:
                        del alive[e[1]]
                elif e[0] == "d":
                    dropped = True
                elif e[0] == "E":
                    kind, key, vals = e[1], e[2], e[3]
                    if kind == "X":
                        dropped = True
                        break
                    if kind == "N" and alive:
                        return f"poll returned None although members {sorted(alive)} are still in the group"
                    if kind == "P" and not alive and want_stream:
                        return "poll returned Pending although the group is empty"
                    if kind == "S":
                        v = vals[0]
                        if v not in valowner:
                            return f"group yielded {v} which no member produced"
                        m = valowner[v]
                        if yielded_this is None or yielded_this[1] != v:
                            return f"group yielded {v} in a poll in which it was not produced"
                        if keyed and members[m] is not None and key != members[m]:
                            return f"value {v} of member {m} (key {members[m]}) was yielded with key {key}"
                    elif yielded_this is not None:
                        return f"member {yielded_this[0]} produced {yielded_this[1]} in this poll but the poll returned {kind}"
                    break
        elif op.startswith("f"):
            e = nxt()
            if e is None or e[0] != "o":
                return f"expected fire marker at {op}"
            while pos < len(ev) and ev[pos][0] in ("f", "W"):
                pos += 1
        elif op == "d":
            e = nxt()
            dropped = True
            while pos < len(ev) and ev[pos][0] == "D":
                if ev[pos][1] in alive:
                    del alive[ev[pos][1]]
                pos += 1
        elif dropped:
            continue
        elif op.startswith("ins("):
            e = nxt()
            if e is None or e[0] == "E" and e[1] == "X":
                return "insert panicked"
            if e[0] != "K":
                return f"expected key after insert, got {e}"
            k = e[1]
            if k in [x for x in alive.values() if x is not None]:
                return f"insert returned key {k} which a live member already holds"
            m = len(members)
            members.append(k)
            alive[m] = k
        elif op.startswith("ext(") or op.startswith("iter("):
            for _ in op[op.index("(") + 1:-1].split(";"):
                e = nxt()
                if e != ("K", None):
                    return f"expected the marker of an extend-insert, got {e}"
                m = len(members)
                members.append(None)        # Extend::extend does not report keys
                alive[m] = None
        elif op.startswith("rm"):
            j = int(op[2:])
            if j >= len(members) or members[j] is None:
                continue
            e = nxt()
            if e is not None and e[0] == "D":
                if e[1] != j and not (j not in alive):
                    pass
                if e[1] in alive:
                    del alive[e[1]]
                e2 = nxt()
                if e2 is None or e2 != ("q", True):
                    return f"remove of a live member must return true"
            else:
                if e != ("q", False):
                    return f"remove result expected, got {e}"
                if j in alive and members[j] not in [members[x] for x in alive if x != j]:
                    return f"remove of live member {j} returned false"
        elif op.startswith("rsv"):
            pass
        elif op == "len":
            e = nxt()
            if e is None or e[0] != "N" or e[1] != len(alive):
                return f"len reported {e} but {len(alive)} members are inserted and neither finished nor removed"
        elif op == "cap":
            e = nxt()
            if e is None or e[0] != "N":
                return f"capacity expected, got {e}"
            if e[1] < len(alive):
                return f"capacity {e[1]} below len {len(alive)}"
            if cap_seen is not None and e[1] < cap_seen:
                return f"capacity shrank from {cap_seen} to {e[1]}"
            cap_seen = e[1]
        elif op == "emp":
            e = nxt()
            if e is None or e[0] != "q" or e[1] != (len(alive) == 0):
                return f"is_empty reported {e} with {len(alive)} members"
        elif op.startswith("has"):
            j = int(op[3:])
            if j >= len(members) or members[j] is None:
                continue
            e = nxt()
            want = members[j] in alive.values()
            if not want and any(v is None for v in alive.values()):
                continue        # a member born through extend (key unknown) may have reused this key
            if e is None or e[0] != "q" or e[1] != want:
                return f"contains_key(key of member {j}) reported {e}, expected {want}"
    return None


def mon_C11(case, toks):
    return _groups(case, toks, False)


def mon_C12(case, toks):
    return _groups(case, toks, True)


# ------------------------------------------------------------------------------------------------ C16 (std only)
def mon_C16(case, toks):
    if case.is_co or case.comb in ("race", "race_ok", "chain", "wait_fut", "wait_stream"):
        return None
    tr = Tr(toks)
    last = {}
    label_of = {}       # (child, k) -> label
    npoll = {}
    fired = set()
    cur = None
    for e in tr.ev:
        if e[0] == "c":
            cur = e[1]
            lab = e[2]
            k = npoll.get(cur, 0)
            npoll[cur] = k + 1
            label_of[(cur, k)] = lab
            if last.get(cur) == "P" and lab not in fired:
                return f"child {cur} re-polled (waker {lab}) although it last returned Pending and no waker handed to it has fired since"
            fired.discard(lab)
        elif e[0] == "f":
            lab = label_of.get((e[1], e[2]))
            if lab is not None:
                fired.add(lab)
        elif e[0] == "a" and cur is not None:
            last[cur] = e[1]
    return None


# ------------------------------------------------------------------------------------------------ C01
def mon_C01(case, toks):
    """after a poll that returned Pending: a child that is still owned, last answered Pending and whose most recent waker has fired
    since its last poll began => the newest parent waker has been woken since the last poll began."""
    if case.is_co:
        return None
    tr = Tr(toks)
    npoll = {}
    last = {}
    gone = set()
    sig = set()         # children signalled since their last poll began
    woken = False
    curpid = None
    retpend = False
    cur = None
    dropped = False

    def check(where):
        if retpend and not dropped:
            for c in sig:
                if c not in gone and last.get(c) == "P" and not woken:
                    return f"{where}: child {c} returned Pending, its most recent waker has fired since, the combinator returned Pending and parent waker {curpid} was never woken (lost wake-up)"
        return None

    def nobody_holds_a_waker():
        """the combinator returned Pending, its task has not been woken since that poll began, and no child it still owns holds a waker (none of them
        answered Pending last): no wake-up is outstanding, the task can never be polled again"""
        if woken or dropped:
            return None
        if any(last.get(c) == "P" and c not in gone for c in last):
            return None
        return f"the combinator returned Pending to parent {curpid} although no child holds a waker (none answered Pending last) and the parent was not woken: pending with no wake-up outstanding"
    for e in tr.ev:
        if e[0] == "B":
            curpid = e[1]
            woken = False
            retpend = False
        elif e[0] == "c":
            cur = e[1]
            npoll[cur] = npoll.get(cur, 0) + 1
            sig.discard(cur)
        elif e[0] == "a":
            last[cur] = e[1]
            if e[1] == "X":
                return None
        elif e[0] == "f":
            if npoll.get(e[1], 0) - 1 == e[2]:
                sig.add(e[1])
        elif e[0] == "W":
            if e[1] == curpid:
                woken = True
        elif e[0] == "D":
            gone.add(e[1])
        elif e[0] == "E":
            if e[1] == "X":
                return None
            retpend = (e[1] == "P")
            r = check("at the end of the poll") or (nobody_holds_a_waker() if retpend else None)
            if r:
                return r
        elif e[0] == "d":
            dropped = True
        elif e[0] == "o":
            r = check("between polls")
            if r:
                return r
        elif e[0] == "K":
            pass
    return check("at the end of the history")


# ------------------------------------------------------------------------------------------------ C20
def mon_C20(case, toks):
    if case.is_co or case.comb in ("chain", "wait_fut", "wait_stream"):
        return None
    tr = Tr(toks)
    owned = set(range(case.n)) if not case.is_group else set()
    polled = set()
    nmem = 0
    cur = None
    npoll = {}
    last = {}
    sig = set()
    sig_at_start = set()
    polled_this = set()
    for e in tr.ev:
        if e[0] == "K":
            owned.add(nmem)
            nmem += 1
        elif e[0] == "B":
            sig_at_start = {c for c in sig if c in owned and last.get(c) == "P"}
            polled_this = set()
        elif e[0] == "c":
            cur = e[1]
            polled.add(cur)
            polled_this.add(cur)
            npoll[cur] = npoll.get(cur, 0) + 1
            sig.discard(cur)
        elif e[0] == "a":
            last[cur] = e[1]
            if e[1] == "X":
                return None
        elif e[0] == "f":
            if npoll.get(e[1], 0) - 1 == e[2]:
                sig.add(e[1])
        elif e[0] == "D":
            owned.discard(e[1])
        elif e[0] == "E":
            if e[1] == "X":
                return None
            if e[1] == "P":
                missing = [c for c in owned if c not in polled]
                if missing:
                    return f"the combinator returned Pending although its children {sorted(missing)} have never been polled"
                if case.comb != "zip":
                    starved = [c for c in sig_at_start if c in owned and c not in polled_this]
                    if starved:
                        return f"children {sorted(starved)} had been woken before this poll, the poll returned Pending, and they were not polled"
        elif e[0] == "d":
            return None
    return None


# ------------------------------------------------------------------------------------------------ C17
def mon_C17(case, toks):
    if case.comb != "merge" or ".f" not in case.id:
        return None
    f = int(case.id.rsplit(".f", 1)[1])
    n = case.n
    tr = Tr(toks)
    prov = []
    for e in tr.ev:
        if e[0] == "E" and e[1] == "S":
            prov.append(e[3][0] // 100 - 1)
    for s in range(0, len(prov) - n + 1):
        if f not in prov[s:s + n]:
            return f"yields {s}..{s+n-1} come from inputs {prov[s:s+n]}: none from the always-ready input {f}"
    return None


# ------------------------------------------------------------------------------------------------ C19
def mon_C19(case, toks):
    if case.comb not in ("wait_fut", "wait_stream"):
        return None
    tr = Tr(toks)
    started = False
    for p in polls(tr):
        inner = []
        for (c, _, a, v) in p["cps"]:
            if c == 0:
                if started:
                    return "the deadline was polled again after it had resolved"
                if inner:
                    return "the deadline was polled after the inner"
                if a == "R":
                    started = True
            else:
                if not started:
                    return "the inner was polled before the deadline resolved"
                inner.append((a, v))
        ret = p["ret"]
        if spurious_unwind(p, "wait_until"):
            return spurious_unwind(p, "wait_until")
        if ret is None or ret[0] == "X":
            return None
        if started and not inner:
            return "the deadline resolved in this poll but the inner was not polled in it"
        if not started:
            if ret[0] != "P":
                return f"returned {ret[0]} before the deadline resolved"
            continue
        a, v = inner[-1]
        want = {"P": ("P", []), "R": ("R", [v]), "I": ("S", [v]), "E": ("N", [])}[a]
        if (ret[0], ret[2]) != want:
            return f"the inner answered {a}{v if v is not None else ''} but wait_until returned {ret[0]}{ret[2]}"
        if len(inner) != 1:
            return "the inner was polled more than once in one poll"
    return None


# ------------------------------------------------------------------------------------------------ C13 / C14 / C15 (concurrent streams)
def co_events(case, toks):
    """derive the await-level events from a co-harness trace (same derivation as runner/comain.ml)"""
    n = case.n
    out = []
    cur = -1
    panic = False
    for t in toks:
        if t.startswith("Cm.") or t.startswith("Ct."):
            stage = 0 if t[1] == "m" else 1
            j = int(t[3:t.index("(")])
            inner = t[t.index("(") + 1:-1]
            idx = int(inner.split(":")[0]) if ":" in inner else None
            arg = int(inner.split(":")[-1]) if inner else None
            out.append(("call", stage, j, idx, arg))
        elif t[0] == "c" and ":" in t:
            cur = int(t[1:t.index(":")])
        elif t.startswith("=I"):
            out.append(("src", int(t[2:])))
        elif t == "=E":
            out.append(("src", None))
        elif t == "=R" or t.startswith("=F"):
            err = int(t[2:]) if t.startswith("=F") else None
            if 1 <= cur <= n:
                out.append(("done", 1, cur - 1, err))
            elif cur > n:
                out.append(("done", 0, cur - 1 - n, err if case.term == "rcol" else None))
        elif t in ("=X", "E:X"):
            panic = True
        elif t[0] == "D" and t[1:].isdigit():
            i = int(t[1:])
            if 1 <= i <= n:
                out.append(("dropwork", 1, i - 1))
            elif i > n:
                out.append(("dropwork", 0, i - 1 - n))
        elif t[0] == "V":
            out.append(("dropitem", int(t[1:])))
        elif t.startswith("E:R["):
            inner = t[4:-1]
            out.append(("result", "vec", [x for x in inner.split(",") if x]))
        elif t == "E:O[]":
            out.append(("result", "ok", []))
        elif t.startswith("E:F"):
            out.append(("result", "err", int(t[3:])))
        elif t == "d":
            out.append(("droptop",))
    return out, panic


def mon_C13(case, toks):
    if not case.is_co or case.term != "fe":
        return None
    evs, panic = co_events(case, toks)
    if panic:
        return None
    has_map = "map" in case.stack
    called = {}
    live = set()
    maxlive = 0
    srcs = []
    result = False
    dropped_top = False
    for e in evs:
        if e[0] == "src" and e[1] is not None:
            srcs.append(e[1])
        elif e[0] == "call" and e[1] == 1:
            called[e[2]] = called.get(e[2], 0) + 1
            if called[e[2]] > 1:
                return f"the closure was called twice for item {e[2]}"
            live.add(e[2])
            maxlive = max(maxlive, len(live))
            if case.lim and len(live) > case.lim:
                return f"{len(live)} closure futures in flight with a limit of {case.lim}"
        elif e[0] == "done" and e[1] == 1:
            live.discard(e[2])
        elif e[0] == "dropwork" and e[1] == 1:
            if not dropped_top:
                return f"closure future of item {e[2]} dropped unfinished although for_each was not dropped"
            live.discard(e[2])
        elif e[0] == "result":
            result = True
            if live:
                return f"for_each resolved while the closure futures of items {sorted(live)} were still in flight"
            want = srcs if case.take is None else srcs[:case.take]
            missing = [j for j in want if called.get(j, 0) != 1]
            if missing:
                return f"for_each resolved but items {missing} never reached the closure"
        elif e[0] == "droptop":
            dropped_top = True
    if dropped_top and live:
        return f"for_each was dropped but the closure futures of items {sorted(live)} were not"
    return None


def mon_C14(case, toks):
    if not case.is_co or case.term not in ("tfe", "rcol"):
        return None
    fstage = 1 if case.term == "tfe" else 0       # the stage whose futures are fallible
    name = "try_for_each" if case.term == "tfe" else "collect::<Result<Vec<_>,_>>"

    evs, panic = co_events(case, toks)
    if panic:
        return None
    errs = []
    srcs = []
    src_end = False
    done_ok = set()
    live = set()
    first_err_seen = False
    dropped_top = False
    for e in evs:
        if e[0] == "src":
            if e[1] is None:
                src_end = True
            else:
                if first_err_seen:
                    return f"item {e[1]} taken from the source after an error had been observed"
                srcs.append(e[1])
        elif e[0] == "call" and e[1] == fstage:
            live.add(e[2])
        elif e[0] == "done" and e[1] == fstage:
            live.discard(e[2])
            if first_err_seen:
                # "all futures still in flight are dropped unfinished" (C14_cancelled_work_never_completes: the acceptor accepts no completion after the first error)
                return name + f": the closure future of item {e[2]} was driven to completion after an error had been observed (in-flight futures are to be dropped unfinished)"
            if e[3] is not None:
                errs.append(e[3])
                first_err_seen = True
            else:
                done_ok.add(e[2])
        elif e[0] == "dropwork" and e[1] == fstage:
            live.discard(e[2])
        elif e[0] == "result":
            if e[1] in ("ok", "vec"):
                if errs:
                    return name + f" resolved Ok although closure futures returned errors {errs}"
                want = srcs if case.take is None else srcs[:case.take]
                if case.take is None and not src_end:
                    return name + " resolved Ok before the source was exhausted"
                missing = [j for j in want if j not in done_ok]
                if missing:
                    return name + f" resolved Ok although items {missing} were not processed to completion"
            elif e[1] == "err":
                if e[2] not in errs:
                    return name + f" resolved Err({e[2]}) which no closure future returned (returned: {errs})"
            if live:
                return name + f" resolved while closure futures of items {sorted(live)} were neither finished nor dropped"
        elif e[0] == "droptop":
            dropped_top = True
    if dropped_top and live:
        return f"the operation was dropped but closure futures of items {sorted(live)} were not"
    return None


def mon_C15(case, toks):
    if not case.is_co:
        return None
    evs, panic = co_events(case, toks)
    if panic:
        return None
    srcs = []
    calls = {}
    for e in evs:
        if e[0] == "src" and e[1] is not None:
            srcs.append(e[1])
            if case.take is not None and len(srcs) > max(case.take, 0) and "take" in case.stack:
                # the source may be polled for one more item only if that item is not processed; the harness' source items are numbered
                pass
        elif e[0] == "call":
            key = (e[1], e[2])
            calls[key] = calls.get(key, 0) + 1
            if calls[key] > 1:
                return f"closure of stage {e[1]} called twice for item {e[2]}"
            if e[3] is not None and e[3] != e[2]:
                return f"enumerate paired item {e[2]} with index {e[3]}"
            if "take" in case.stack and case.take is not None and e[2] >= case.take:
                return f"item {e[2]} was processed although take({case.take}) was applied"
        elif e[0] == "result":
            want = srcs if case.take is None else srcs[:case.take]
            if e[1] == "vec" and case.term in ("col", "rcol"):
                got = sorted(int(x.split(":")[-1]) for x in e[2])
                if got != sorted(want):
                    return f"collect returned items {got}, the source items to process were {sorted(want)}"
                for x in e[2]:
                    if ":" in x and int(x.split(":")[0]) != int(x.split(":")[1]):
                        return f"collect output pairs item {x.split(':')[1]} with index {x.split(':')[0]}"
            if "map" in case.stack:
                miss = [j for j in want if calls.get((0, j), 0) != 1]
                if miss and e[1] != "err":
                    return f"map closure not called exactly once for items {miss}"
            if case.take is not None and len(srcs) > case.take + (0 if case.take == 0 else 0) and False:
                return "source over-consumed"
    return None


MONITORS = {"C01": mon_C01, "C02": mon_C02, "C03": mon_C03, "C04": mon_C04, "C05": mon_C05, "C06": mon_C06, "C07": mon_C07,
            "C08": mon_C08, "C09": mon_C09, "C10": mon_C10, "C11": mon_C11, "C12": mon_C12, "C13": mon_C13, "C14": mon_C14,
            "C15": mon_C15, "C16": mon_C16, "C17": mon_C17, "C19": mon_C19, "C20": mon_C20}
