#!/usr/bin/env python3
"""Run the quick checks against a tree other than /repo (a scratch worktree holding a seeded change) and summarise which checks raise an alarm.
   usage: tools/seedrun.py <tree> [Cxx ...]        (evidence/ and replays/ of /verif are NOT overwritten: outputs go to .cache/seedrun/<tag>/)"""
import os, subprocess, sys, shutil, json, hashlib
from concurrent.futures import ThreadPoolExecutor

ROOT = os.path.dirname(os.path.dirname(os.path.abspath(__file__)))
tree = os.path.abspath(sys.argv[1])
props = sys.argv[2:] or [f"C{i:02d}" for i in range(1, 21)]
tag = hashlib.md5(tree.encode()).hexdigest()[:8]
out = os.path.join(ROOT, ".cache", "seedrun", tag)
os.makedirs(out, exist_ok=True)
# keep the committed evidence: save and restore around the run
saved = os.path.join(out, "evidence.saved")
shutil.rmtree(saved, ignore_errors=True)
shutil.copytree(os.path.join(ROOT, "evidence"), saved)


def run(p):
    env = dict(os.environ, VERIF_REPO=tree)
    r = subprocess.run([os.path.join(ROOT, "check"), p], text=True, capture_output=True, env=env, cwd=ROOT)
    open(os.path.join(out, p + ".log"), "w").write(r.stdout + r.stderr)
    v = [l for l in r.stdout.splitlines() if l.startswith("VIOLATION")]
    rep = None
    if v:
        rp = v[0].split("replay=")[1].split()[0]
        if os.path.exists(rp):
            rep = os.path.join(out, os.path.basename(rp))
            shutil.move(rp, rep)
    return p, r.returncode, (v[0] if v else ""), rep


# build the harnesses once first (serial) so the parallel checks do not queue on the locks
subprocess.run([sys.executable, "-c", "import sys; sys.path.insert(0,'tools'); import driver; [driver.build_harness(c) for c in ('std','alloc','nostd')]"],
               env=dict(os.environ, VERIF_REPO=tree), cwd=ROOT)
with ThreadPoolExecutor(4) as ex:
    res = list(ex.map(run, props))
for f in os.listdir(saved):
    shutil.copy(os.path.join(saved, f), os.path.join(ROOT, "evidence", f))
alarms = []
for p, rc, v, rep in res:
    kind = "-" if rc == 0 else ("FOUND-INPUT" if "no-failing-input-found" not in v else "no-failing-input-found")
    print(f"{p} rc={rc} {kind} {rep or ''}")
    if rc != 0:
        alarms.append(p)
print("ALARMS:", " ".join(alarms) or "none")
