#!/usr/bin/env python3
"""For every kept seeded change whose own property's check finds a failing input: print the minimised failing case as a corpus line.
   usage: tools/seedcorpus.py [name ...]   ->  lines  `CORPUS <pid> <case> # <cfg># seeded/<name>`  (to be appended to corpus/<pid>.cases by hand,
   after checking that the unchanged tree passes them: the corpus runs first in every check of that property)."""
import glob, hashlib, json, os, re, shutil, subprocess, sys
ROOT = os.path.dirname(os.path.dirname(os.path.abspath(__file__)))
SCRATCH = os.environ.get("SEEDALL_DIR", "/tmp/seedcorpus")
names = sys.argv[1:] or sorted(os.path.basename(os.path.dirname(p)) for p in glob.glob(os.path.join(ROOT, "seeded", "*", "patch.diff")))
for name in names:
    sd = os.path.join(ROOT, "seeded", name)
    meta = json.load(open(os.path.join(sd, "meta.json")))
    pid = meta["breaks_property"]
    if pid in ("C13", "C14", "C15", "C18"):
        continue                      # acceptor / translator properties: no scan cases
    tree = os.path.join(SCRATCH, name)
    shutil.rmtree(tree, ignore_errors=True)
    os.makedirs(tree)
    subprocess.run(f"git -C /repo archive HEAD | tar -x -C {tree}", shell=True, check=True)
    shutil.copy("/repo/Cargo.lock", os.path.join(tree, "Cargo.lock"))
    r = subprocess.run(["patch", "-p1", "-s", "-i", os.path.join(sd, "patch.diff")], cwd=tree, text=True, capture_output=True)
    if r.returncode == 0:
        saved = {f: open(os.path.join(ROOT, "evidence", f)).read() for f in os.listdir(os.path.join(ROOT, "evidence"))}
        r = subprocess.run([os.path.join(ROOT, "check"), pid], text=True, capture_output=True, env=dict(os.environ, VERIF_REPO=tree), cwd=ROOT)
        for f, t in saved.items():
            open(os.path.join(ROOT, "evidence", f), "w").write(t)
        m = re.search(r"VIOLATION property=\S+ replay=(\S+)", r.stdout)
        if m and os.path.exists(m.group(1)):
            t = open(m.group(1)).read()
            blk = re.search(r"^SHRUNK  from suite \S+, config (\w+):.*\nCASE    (.*)$", t, re.M) or None
            if blk:
                print(f"CORPUS {pid} {blk.group(2)} # {blk.group(1)}# seeded/{name}", flush=True)
            else:
                b2 = re.search(r"^CONFIG  (\w+)\nCASE    (.*)\n(?:IMPL .*\n)?(?:MODEL .*\n)?MONITOR (?!no property failure)", t, re.M)
                if b2:
                    print(f"CORPUS {pid} {b2.group(2)} # {b2.group(1)}# seeded/{name}", flush=True)
                else:
                    print(f"NOCASE {pid} {name}", flush=True)
            os.unlink(m.group(1))
        else:
            print(f"NOALARM {pid} {name}", flush=True)
    tag = hashlib.md5(os.path.abspath(tree).encode()).hexdigest()[:8]
    shutil.rmtree(tree, ignore_errors=True)
    for p in glob.glob(os.path.join(ROOT, ".cache", f"*{tag}*")):
        shutil.rmtree(p, ignore_errors=True) if os.path.isdir(p) else os.remove(p)
shutil.rmtree(SCRATCH, ignore_errors=True)
subprocess.run([sys.executable, os.path.join(ROOT, "tools", "autotraits.py"), "generate"], cwd=ROOT, capture_output=True)
