#!/usr/bin/env python3
"""Confirm a seeded change produced in a scratch worktree and keep it under /verif/seeded/<name>/.
   usage: tools/seedkeep.py <worktree> <name> <property> "<what it needs to manifest>"
   Confirms: (1) the crate's own suite passes with the change (demo moved aside), (2) the demo fails with the change, (3) passes without it.
   Then runs every quick check against the changed tree (tools/seedrun.py) and records which raise an alarm."""
import json, os, re, shutil, subprocess, sys

ROOT = os.path.dirname(os.path.dirname(os.path.abspath(__file__)))
wt, name, prop, needs = sys.argv[1], sys.argv[2], sys.argv[3], sys.argv[4]
env = dict(os.environ, CARGO_NET_OFFLINE="true")


def sh(cmd, cwd=wt):
    return subprocess.run(cmd, shell=True, text=True, capture_output=True, cwd=cwd, env=env)


def counts(out):
    p = sum(int(x) for x in re.findall(r"test result: \w+\. (\d+) passed", out))
    f = sum(int(x) for x in re.findall(r"test result: \w+\. \d+ passed; (\d+) failed", out))
    return p, f


dst = os.path.join(ROOT, "seeded", name)
os.makedirs(dst, exist_ok=True)
patch = sh("git diff -- src").stdout
assert patch.strip(), "no source change in the worktree"
open(os.path.join(dst, "patch.diff"), "w").write(patch)
demo = os.path.join(wt, "tests", "seeded_demo.rs")
assert os.path.exists(demo), "no demo"
shutil.copy(demo, os.path.join(dst, "seeded_demo.rs"))
ran = []
# (1) existing suite with the change, demo moved aside
shutil.move(demo, "/tmp/seeded_demo.rs.aside")
r = sh("cargo test --workspace --no-fail-fast --offline --lib --tests 2>&1")
shutil.move("/tmp/seeded_demo.rs.aside", demo)
p1, f1 = counts(r.stdout)
ran.append(f"with change: cargo test --workspace --no-fail-fast --offline --lib --tests -> {p1} passed, {f1} failed")
# (2) demo with the change
DEMO = "cargo test --offline " + os.environ.get("SEED_DEMO_FLAGS", "") + " --test seeded_demo 2>&1"     # e.g. --no-default-features for a no_std-only defect
r = sh(DEMO)
p2, f2 = counts(r.stdout)
nocompile = "could not compile" in r.stdout and "error[" in r.stdout
if nocompile:
    f2 = max(f2, 1)
ran.append(f"with change: {DEMO[:-5]} -> " + ("does not compile: " + re.findall(r"error\[E\d+\][^\n]*", r.stdout)[0] if nocompile else f"{p2} passed, {f2} failed"))
# (3) demo without the change
# (no `git stash`: the stash is shared between the worktrees of one repository)
open("/tmp/seedkeep.patch", "w").write(patch)
sh("git checkout -- src")
r = sh(DEMO)
p3, f3 = counts(r.stdout)
assert sh("git apply /tmp/seedkeep.patch").returncode == 0
ran.append(f"without change: {DEMO[:-5]} -> {p3} passed, {f3} failed")
ok = (p1 == 87 and f1 == 0 and f2 > 0 and f3 == 0 and p3 > 0)
print("\n".join(ran))
print("CONFIRMED" if ok else "NOT CONFIRMED")
# checks
r = subprocess.run([sys.executable, os.path.join(ROOT, "tools", "seedrun.py"), wt], text=True, capture_output=True, cwd=ROOT)
lines = [l for l in r.stdout.splitlines() if re.match(r"C\d\d rc=", l)]
alarms = {}
for l in lines:
    m = re.match(r"(C\d\d) rc=(\d) (\S+)", l)
    if m.group(2) != "0":
        alarms[m.group(1)] = m.group(3)
print("ALARMS:", alarms)
meta = dict(name=name, breaks_property=prop, needs_to_manifest=needs, confirmed=ok, what_was_run=ran,
            files_changed=re.findall(r"^\+\+\+ b/(\S+)", patch, re.M),
            checks_run="tools/seedrun.py <worktree with the change> = every quick check with VERIF_REPO pointing at the changed tree",
            checks_raising_alarm=alarms, detected_by_own_property_check=(prop in alarms),
            own_check_verdict=alarms.get(prop, "no alarm"))
json.dump(meta, open(os.path.join(dst, "meta.json"), "w"), indent=1)
