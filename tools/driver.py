"""Driver behind /verif/check (see DESIGN.md 3, 5, 9)."""
import fcntl, hashlib, json, os, random, re, shutil, subprocess, sys, time

import gen
import monitors
from monitors import Case

ROOT = os.path.dirname(os.path.dirname(os.path.abspath(__file__)))
REPO = os.path.abspath(os.environ.get("VERIF_REPO", "/repo"))
CACHE = os.path.join(ROOT, ".cache")
COQ = os.path.join(ROOT, "coq")
REPO_TAG = hashlib.md5(REPO.encode()).hexdigest()[:8]
NPROC = os.cpu_count() or 4

FORBIDDEN = re.compile(r"\b(Admitted|admit|Axiom|Axioms|Parameter|Parameters|Conjecture|Admit Obligations|give_up)\b"
                       r"|Unset Guard|Unset Positivity|Unset Universe|bypass_check|type-in-type|impredicative-set")
AXIOM_ALLOW = set()     # standard-library axioms we accept in Print Assumptions output: none


def sh(cmd, timeout=3600, **kw):
    try:
        return subprocess.run(cmd, shell=True, text=True, capture_output=True, timeout=timeout, **kw)
    except subprocess.TimeoutExpired as e:
        class R:
            returncode = 124
            stdout = (e.stdout or b"").decode() if isinstance(e.stdout, bytes) else (e.stdout or "")
            stderr = "timeout"
        return R()


class Lock:
    def __init__(self, name):
        os.makedirs(CACHE, exist_ok=True)
        self.f = open(os.path.join(CACHE, name + ".lock"), "w")

    def __enter__(self):
        fcntl.flock(self.f, fcntl.LOCK_EX)
        return self

    def __exit__(self, *a):
        fcntl.flock(self.f, fcntl.LOCK_UN)
        self.f.close()


# ================================================================================================ proofs
def strip_comments(src):
    out = []
    depth = 0
    i = 0
    while i < len(src):
        if src.startswith("(*", i):
            depth += 1
            i += 2
        elif src.startswith("*)", i) and depth > 0:
            depth -= 1
            i += 2
        else:
            if depth == 0:
                out.append(src[i])
            elif src[i] == "\n":
                out.append("\n")
            i += 1
    return "".join(out)


def statements(src):
    """{name: normalised statement} for every Theorem / Example in a property file"""
    code = strip_comments(src)
    res = {}
    for m in re.finditer(r"^[ \t]*(Theorem|Example|Lemma|Corollary)\s+(\w+)(.*?)^[ \t]*Proof\b", code, re.M | re.S):
        res[m.group(2)] = (m.group(1), re.sub(r"\s+", " ", m.group(3)).strip())
    return res


def scan_forbidden():
    bad = []
    for dp, _, fs in os.walk(COQ):
        for f in fs:
            if f.endswith(".v"):
                code = strip_comments(open(os.path.join(dp, f)).read())
                for n, line in enumerate(code.split("\n"), 1):
                    if FORBIDDEN.search(line):
                        bad.append(f"{os.path.relpath(os.path.join(dp, f), COQ)}:{n}: {line.strip()[:80]}")
    for f in ("_CoqProject", "Makefile.local"):
        p = os.path.join(COQ, f)
        if os.path.exists(p) and re.search(r"type-in-type|impredicative-set|-vos|-vok", open(p).read()):
            bad.append(f"{f}: forbidden option")
    return bad


def coq_make(targets, timeout=2400):
    with Lock("coq"):
        if not os.path.exists(os.path.join(COQ, "Makefile")):
            sh(f"cd {COQ} && coq_makefile -f _CoqProject -o Makefile")
        return sh(f"cd {COQ} && timeout {timeout} make -j{NPROC} {' '.join(targets)} 2>&1", timeout=timeout + 60)


def check_proofs(pid, tier):
    """the proof obligations of one property: Properties/<pid>.v builds from a clean dependency chain, every theorem is closed under
    the global context, the statements are the pinned ones, and nothing forbidden occurs anywhere in the development."""
    t0 = time.time()
    res = dict(ok=False, why="", obligations=0, discharged=0, theorems=[], examples=[], log="")
    pf = os.path.join(COQ, "Properties", pid + ".v")
    if not os.path.exists(pf):
        res["why"] = f"Properties/{pid}.v missing"
        return res
    src = open(pf).read()
    st = statements(src)
    thms = [n for n, (k, _) in st.items() if k != "Example"]
    exs = [n for n, (k, _) in st.items() if k == "Example"]
    res["theorems"], res["examples"] = thms, exs
    res["obligations"] = len(thms) + len(exs) + 2        # + statement pins + forbidden-word scan
    r = coq_make([f"Properties/{pid}.vo", "Extract.vo", "Proofs/NestDemo.vo", "ExtractCo.vo", "ExtractMon.vo"])
    res["log"] = r.stdout[-3000:]
    if r.returncode != 0:
        m = re.search(r'File "([^"]+)", line (\d+).*?\n(Error:.*?)(?:\n\n|\Z)', r.stdout, re.S)
        res["why"] = "coq build failed: " + (f"{m.group(1)}:{m.group(2)} {m.group(3)[:300]}" if m else r.stdout[-400:])
        res["broken"] = m.group(1) if m else "?"
        return res
    # Print Assumptions output of the property file itself
    with Lock("coq"):
        r = sh(f"cd {COQ} && timeout 600 coqc -R . FC Properties/{pid}.v 2>&1")
    out = r.stdout
    closed = out.count("Closed under the global context")
    ax_blocks = re.findall(r"Axioms:\n((?:.+\n?)+?)(?=\n\S|\Z)", out)
    bad_ax = [a for blk in ax_blocks for a in re.findall(r"^(\S+)\s*:", blk, re.M) if a not in AXIOM_ALLOW]
    npa = len(re.findall(r"\bPrint Assumptions\s+(\w+)", strip_comments(src)))
    discharged = 0
    why = []
    if r.returncode != 0:
        why.append("property file does not compile")
    if npa != len(thms):
        why.append(f"{len(thms)} theorems but {npa} Print Assumptions")
    if closed + len(ax_blocks) != npa or bad_ax:
        why.append(f"assumptions: closed={closed} of {npa}, axioms outside the allow-list: {bad_ax}")
    else:
        discharged += len(thms) + len(exs)
    # statement pins
    pins = json.load(open(os.path.join(COQ, "Properties", "PINS.json"))) if os.path.exists(os.path.join(COQ, "Properties", "PINS.json")) else {}
    mine = {n: hashlib.sha256((k + " " + s).encode()).hexdigest()[:16] for n, (k, s) in st.items()}
    want = pins.get(pid, {})
    if mine != want:
        diff = sorted(set(mine.items()) ^ set(want.items()))
        why.append(f"statements differ from the pinned ones (Properties/PINS.json): {[d[0] for d in diff][:6]}")
    else:
        discharged += 1
    bad = scan_forbidden()
    if bad:
        why.append(f"forbidden constructs: {bad[:4]}")
    else:
        discharged += 1
    if not thms:
        why.append("no theorem in the property file")
    if tier == "thorough" and not why:
        with Lock("coq"):
            r = sh(f"cd {COQ} && timeout 3000 coqchk -o -silent -R . FC FC.Properties.{pid} 2>&1", timeout=3100)
        res["coqchk"] = r.stdout[-600:]
        res["obligations"] += 1
        m = re.search(r"\* Axioms:\s*(.*?)\n\s*\n", r.stdout + "\n\n", re.S)
        axs = m.group(1).strip() if m else "?"
        if r.returncode != 0 or axs not in ("<none>",):
            why.append(f"coqchk: rc={r.returncode} axioms={axs[:200]}")
        else:
            discharged += 1
    res["discharged"] = discharged
    res["ok"] = not why
    res["why"] = "; ".join(why)
    res["wall"] = round(time.time() - t0, 1)
    return res


def cmd_pin():
    pins = {}
    for f in sorted(os.listdir(os.path.join(COQ, "Properties"))):
        if f.endswith(".v"):
            st = statements(open(os.path.join(COQ, "Properties", f)).read())
            pins[f[:-2]] = {n: hashlib.sha256((k + " " + s).encode()).hexdigest()[:16] for n, (k, s) in st.items()}
    json.dump(pins, open(os.path.join(COQ, "Properties", "PINS.json"), "w"), indent=1, sort_keys=True)
    print("pinned", sum(len(v) for v in pins.values()), "statements in", len(pins), "files")


# ================================================================================================ builds
def build_runner():
    with Lock("runner"):
        rd = os.path.join(ROOT, "runner")
        for exe, srcs in (("runner", ["model.mli", "model.ml", "main.ml"]), ("coacc", ["costream.mli", "costream.ml", "comain.ml"]),
                          ("montool", ["mon.mli", "mon.ml", "montool.ml"])):
            out = os.path.join(CACHE, exe)
            if not os.path.exists(out) or any(os.path.getmtime(os.path.join(rd, s)) > os.path.getmtime(out) for s in srcs):
                bd = os.path.join(CACHE, "ocaml-" + exe)
                shutil.rmtree(bd, ignore_errors=True)
                os.makedirs(bd)
                for s in srcs:
                    shutil.copy(os.path.join(rd, s), bd)
                r = sh(f"cd {bd} && ocamlfind ocamlopt -O2 -package str -linkpkg {' '.join(srcs)} -o {out} 2>&1 || "
                       f"(cd {bd} && ocamlfind ocamlopt -package str -linkpkg {' '.join(srcs)} -o {out} 2>&1)")
                if not os.path.exists(out):
                    raise SystemExit(f"runner build failed ({exe}):\n" + r.stdout[-2000:])
    return os.path.join(CACHE, "runner"), os.path.join(CACHE, "coacc")


def build_harness(cfg):
    """(re)builds the harness against the CURRENT working tree of the repository; cargo decides what is stale"""
    feat = {"std": "--features fc-std", "alloc": "--features fc-alloc", "nostd": ""}[cfg]
    with Lock(f"harness-{cfg}-{REPO_TAG}"):
        bd = os.path.join(CACHE, f"hsrc-{REPO_TAG}")
        os.makedirs(bd, exist_ok=True)
        man = open(os.path.join(ROOT, "harness", "Cargo.toml")).read().replace('path = "/repo"', f'path = "{REPO}"')
        mp = os.path.join(bd, "Cargo.toml")
        if not os.path.exists(mp) or open(mp).read() != man:
            open(mp, "w").write(man)
        lk = os.path.join(bd, "Cargo.lock")
        def lock_src():
            p = os.path.join(REPO, "Cargo.lock")      # not tracked by the repository: a scratch worktree has none
            return p if os.path.exists(p) else os.path.join(ROOT, "harness", "Cargo.lock.ref")
        if not os.path.exists(lk):
            shutil.copy(lock_src(), lk)
        sp = os.path.join(bd, "src")
        if os.path.islink(sp) or os.path.exists(sp):
            if not (os.path.islink(sp) and os.readlink(sp) == os.path.join(ROOT, "harness", "src")):
                if os.path.islink(sp):
                    os.unlink(sp)
                else:
                    shutil.rmtree(sp)
        if not os.path.exists(sp):
            os.symlink(os.path.join(ROOT, "harness", "src"), sp)
        tgt = os.path.join(CACHE, f"target-{cfg}-{REPO_TAG}")
        r = sh(f"cd {bd} && CARGO_NET_OFFLINE=true timeout 2400 cargo build -q --release --offline {feat} --target-dir {tgt} 2>&1", timeout=2500)
        if r.returncode != 0:
            if "Cargo.lock" in r.stdout or "lock file" in r.stdout:
                shutil.copy(lock_src(), lk)
                r = sh(f"cd {bd} && CARGO_NET_OFFLINE=true timeout 2400 cargo build -q --release --offline {feat} --target-dir {tgt} 2>&1", timeout=2500)
        if r.returncode != 0:
            return None, r.stdout[-3000:]
    return os.path.join(tgt, "release"), ""


# ================================================================================================ projections
def proj_returns(t):
    return [x for x in t if x[0] in "BKN" or x.startswith("E:") or x in ("T", "F", "d", "o", "k")]


def proj_polls(t):
    return [x for x in t if x[0] == "B" or x.startswith("E:") or (x[0] == "c" and ":" in x) or x[0] == "=" or x == "d"]


def proj_wakes(t):
    return [x for x in t if x[0] in "BW=" or x.startswith("E:") or (x[0] in "cf" and (":" in x or "." in x)) or x in ("o", "d")]


def proj_own(t):
    """returns + drops, drops as a set per segment between other events (DESIGN 5.3)"""
    out = []
    seg = []
    for x in t:
        if x[0] in "DV" and x[1:].isdigit():
            seg.append(x)
        else:
            if seg:
                out.append("{" + ",".join(sorted(seg)) + "}")
                seg = []
            if x[0] in "BKN=" or x.startswith("E:") or x in ("T", "F", "d", "o", "k") or (x[0] == "c" and ":" in x):
                out.append(x)
    if seg:
        out.append("{" + ",".join(sorted(seg)) + "}")
    return out


def proj_all(t):
    out = []
    seg = []
    for x in t:
        if x[0] in "DV" and x[1:].isdigit():
            seg.append(x)
        else:
            if seg:
                out.append("{" + ",".join(sorted(seg)) + "}")
                seg = []
            out.append(x)
    if seg:
        out.append("{" + ",".join(sorted(seg)) + "}")
    return out


def _nv(x):
    """a result without its payload: which values a poll returned is the business of C04-C12, not of the wake-up / poll-discipline properties"""
    return x[:3] if x.startswith("E:") else x


def proj_polls_nv(t):
    return [_nv(x) for x in proj_polls(t)]


def proj_wakes_nv(t):
    return [_nv(x) for x in proj_wakes(t)]


PROJ = {"returns": proj_returns, "polls": proj_polls, "wakes": proj_wakes, "own": proj_own, "all": proj_all,
        "polls-nv": proj_polls_nv, "wakes-nv": proj_wakes_nv}

# ================================================================================================ properties
SCAN4 = ["join", "try_join", "merge", "zip"]
CFG3 = ("std", "alloc", "nostd")


def suites_for(pid, rng, tier):
    """-> (projection, [(suite name, cfg, kind, cases)])   kind: 'scan' (model predicts the trace) | 'co' (acceptor)"""
    k = 3000 if tier == "quick" else 40000
    ks = max(k // 2, 1000)
    S = []

    def fixed(name, cfgs, combs, count=k, **kw):
        for c in cfgs:
            S.append((name, c, "scan", gen.gen_fixed(rng, c, combs, count, name[0] + c[0], **kw)))

    def groups(name, cfgs, kinds, count=k, **kw):
        for c in cfgs:
            S.append((name, c, "scan", gen.gen_groups(rng, count, name[0] + c[0], kinds=kinds, **kw)))

    kl = max(k // 10, 200)       # the *-long suites: few children or members with long lives, run to the very end

    def small(name, cfgs, comb, cont="array"):
        n, ml, mo = (2, 2, 3) if tier == "quick" else (2, 2, 4)
        cases = gen.gen_small(comb, cont, n, ml, mo, "x")
        for c in cfgs:
            S.append((name + "-exhaustive", c, "scan", cases))

    FG = ("fgroup", "fgroup_keyed")
    SG = ("sgroup", "sgroup_keyed")

    def nest_sim(name, cfgs=("std", "alloc"), skip=()):
        """every nest the harness builds - join of joins, a.join(b) of joins, join of races, race of joins, merge / chain / zip of merges, a FutureGroup
           of joins, a StreamGroup of merges - in the std and alloc builds, predicted by the composed model (coq/Model/Nest.v nest_run, extracted):
           kind "nsim" = like "scan" (model trace compared under the projection, monitor on the implementation's trace), without the corpus and
           without the extracted single-level predicates"""
        for c in cfgs:
            S.append((name, c, "nsim", gen.gen_nest(rng, ks // 2, "y" + c[0], combs=tuple(x for x in ("nest_jj", "nest_mm", "nest_jt", "nest_gj", "nest_gm", "nest_jr", "nest_rj", "nest_cm", "nest_zm", "nest_tt") if x not in skip))))
            S.append((name + "-long", c, "nsim", gen.gen_nest(rng, kl, "yl" + c[0], long=True, combs=tuple(x for x in ("nest_jj", "nest_mm", "nest_jt", "nest_gj", "nest_gm", "nest_jr", "nest_rj", "nest_cm", "nest_zm", "nest_tt") if x not in skip))))
    if pid == "C01":
        fixed("wake", CFG3, SCAN4 + ["race", "race_ok", "chain"])
        fixed("wake-large", ("std", "alloc"), SCAN4, ks // 4, large=True)
        groups("wake-groups", ("std", "alloc"), FG + SG, ks)
        fixed("wake-long", ("std", "alloc"), SCAN4 + ["race", "race_ok", "chain"], kl, long=True)
        groups("wake-groups-long", ("std",), FG + SG, kl, long=True)
        groups("wake-groups-big", ("std",), FG + SG, kl // 2, big=True)
        S.append(("wake-wait", "std", "scan", gen.gen_wait(rng, ks // 2, "w")))
        for c in ("std", "alloc"):
            S.append(("wake-nest(monitor only)", c, "mon", gen.gen_nest(rng, ks // 2, "x" + c[0])))
        nest_sim("wake-nest-sim")
        return "wakes-nv", S
    if pid == "C02":
        fixed("own", CFG3, SCAN4 + ["race", "race_ok", "chain"], panic=0.08)
        fixed("own-large", ("std",), SCAN4, ks // 4, panic=0.08, large=True)
        groups("own-groups", ("std", "alloc"), FG + SG, ks)
        fixed("own-long", ("std", "alloc"), SCAN4 + ["race", "race_ok", "chain"], kl, long=True)
        groups("own-groups-long", ("std",), FG + SG, kl, long=True)
        groups("own-groups-big", ("std",), FG + SG, kl // 2, big=True)
        S.append(("own-wait", "std", "scan", gen.gen_wait(rng, ks // 2, "w", panic=0.08)))
        small("own", ("std",), "try_join")
        return "own", S
    if pid == "C03":
        fixed("disc", CFG3, SCAN4 + ["race", "race_ok", "chain"])
        fixed("disc-large", ("std",), SCAN4, ks // 4, large=True)
        groups("disc-groups", ("std", "alloc"), FG + SG, ks)
        fixed("disc-long", ("std", "alloc"), SCAN4 + ["race", "race_ok", "chain"], kl, long=True)
        groups("disc-groups-long", ("std",), FG + SG, kl, long=True)
        groups("disc-groups-big", ("std",), FG + SG, kl // 2, big=True)
        S.append(("disc-wait", "alloc", "scan", gen.gen_wait(rng, ks // 2, "w")))
        nest_sim("disc-nest-sim")
        return "polls-nv", S
    if pid == "C04":
        fixed("join", CFG3, ["join"])
        fixed("join-long", ("std", "nostd"), ["join"], kl, long=True)
        small("join", ("std", "nostd"), "join")
        small("join-tuple", ("std",), "join", "tuple")
        return "returns", S
    if pid == "C05":
        fixed("tryjoin", CFG3, ["try_join"])
        fixed("tryjoin-long", ("std", "nostd"), ["try_join"], kl, long=True)
        small("tryjoin", ("std", "nostd"), "try_join")
        small("tryjoin-tuple", ("std",), "try_join", "tuple")
        return "own", S
    if pid == "C06":
        fixed("race", CFG3, ["race"])
        fixed("race-long", ("std", "nostd"), ["race"], kl, long=True)
        small("race", ("std",), "race")
        small("race-tuple", ("std",), "race", "tuple")
        return "own", S
    if pid == "C07":
        fixed("raceok", CFG3, ["race_ok"])
        fixed("raceok-long", ("std", "alloc"), ["race_ok"], kl, long=True)
        small("raceok", ("std",), "race_ok")
        small("raceok-tuple", ("nostd",), "race_ok", "tuple")
        small("raceok-vec", ("alloc",), "race_ok", "vec")
        return "own", S
    if pid == "C08":
        fixed("merge", CFG3, ["merge"])
        fixed("merge-long", CFG3, ["merge"], kl, long=True)
        small("merge", ("std", "nostd"), "merge")
        return "polls", S
    if pid == "C09":
        fixed("zip", CFG3, ["zip"])
        fixed("zip-long", CFG3, ["zip"], kl, long=True)
        small("zip", ("std", "nostd"), "zip")
        return "own", S
    if pid == "C10":
        fixed("chain", CFG3, ["chain"])
        fixed("chain-long", CFG3, ["chain"], kl, long=True)
        small("chain", ("std",), "chain")
        small("chain-tuple", ("nostd",), "chain", "tuple")
        return "polls", S
    if pid == "C11":
        groups("fgroup", ("std", "alloc"), FG, 2 * k)
        groups("fgroup-long", ("std", "alloc"), FG, kl, long=True)
        groups("fgroup-big", ("std", "alloc"), FG, kl // 2, big=True)
        return "own", S
    if pid == "C12":
        groups("sgroup", ("std", "alloc"), SG, 2 * k)
        groups("sgroup-long", ("std", "alloc"), SG, kl, long=True)
        groups("sgroup-big", ("std", "alloc"), SG, kl // 2, big=True)
        return "own", S
    if pid == "C16":
        fixed("selective", ("std",), SCAN4, 2 * k)
        fixed("selective-large", ("std",), SCAN4, ks // 3, large=True)
        groups("selective-groups", ("std",), FG + SG, k)
        fixed("selective-long", ("std",), SCAN4, kl, long=True)
        groups("selective-groups-long", ("std",), FG + SG, kl, long=True)
        groups("selective-groups-big", ("std",), FG + SG, kl // 2, big=True)
        small("selective-join", ("std",), "join")
        small("selective-merge", ("std",), "merge")
        nest_sim("selective-nest-sim", ("std",), skip=("nest_jr",))      # a race polls all its children in every poll: not a combinator C16 speaks about
        return "polls-nv", S
    if pid == "C17":
        for c in CFG3:
            S.append(("fair", c, "scan", gen.gen_fair(rng, c, k, "f" + c[0])))
            S.append(("fair-large", c, "scan", gen.gen_fair(rng, c, max(k // 10, 200), "fl" + c[0], large=True)))
        return "returns", S
    if pid == "C19":
        for c in CFG3:
            S.append(("wait", c, "scan", gen.gen_wait(rng, k, "w" + c[0])))
            S.append(("wait-long", c, "scan", gen.gen_wait(rng, kl, "wl" + c[0], long=True)))
        return "own", S
    if pid == "C20":
        for c in CFG3:
            S.append(("conc", c, "scan", gen.gen_never(rng, c, SCAN4 + ["race", "race_ok"], k, "n" + c[0])))
        fixed("conc-mixed", ("std", "alloc"), SCAN4, ks)
        fixed("conc-large", ("std",), SCAN4, ks // 4, large=True)
        groups("conc-groups", ("std", "alloc"), FG + SG, ks)
        fixed("conc-long", ("std", "alloc"), SCAN4, kl, long=True)
        groups("conc-groups-big", ("std",), FG + SG, kl // 2, big=True)
        S.append(("conc-nest(monitor only)", "std", "mon", gen.gen_nest(rng, ks // 2, "xs", combs=("nest_jj", "nest_jr", "nest_rj", "nest_jt", "nest_gj", "nest_mm", "nest_gm"))))   # chain and zip are outside C20's second sentence
        nest_sim("conc-nest-sim")
        return "polls-nv", S
    if pid in ("C13", "C14", "C15"):
        terms = {"C13": ("fe",), "C14": ("tfe", "rcol", "rcol"), "C15": ("fe", "tfe", "col", "rcol")}[pid]
        S.append(("costream", "std", "co", gen.gen_co(rng, 2 * k, "k", terms=terms)))
        # Vec::into_co_stream() as the source: its trace must equal the trace of the same pipeline over a stream that has every item ready
        S.append(("costream-vec-source(vs stream source)", "std", "cov", gen.gen_co(rng, ks, "v", terms=terms, allready=True, panic=0.0)))
        # sources of 30 .. 90 items, over a stream and over a Vec
        S.append(("costream-large", "std", "co", gen.gen_co(rng, max(k // 10, 200), "kl", terms=terms, large=True, panic=0.002, drop=0.005)))
        S.append(("costream-vec-source-large(vs stream source)", "std", "cov", gen.gen_co(rng, max(k // 10, 200), "vl", terms=terms, allready=True, panic=0.0, large=True, drop=0.005)))
        return "all", S
    raise SystemExit(f"no suite for {pid}")


# ================================================================================================ running
def run_lines(exe, args, lines, timeout=900):
    p = subprocess.run([exe] + args, input="\n".join(lines) + "\n", text=True, capture_output=True, timeout=timeout)
    return p.stdout.splitlines(), p.returncode, p.stderr[-500:]


def run_impl(bins, kind, lines):
    exe = os.path.join(bins, "co-harness" if kind in ("co", "cov") else "fc-harness")
    if kind == "cov":
        lines = [l.replace(" co:", " cov:", 1) for l in lines]
    try:
        out, rc, err = run_lines(exe, [], lines)
    except subprocess.TimeoutExpired:
        return None, "timeout (hang)"
    if len(out) != len(lines):
        return None, f"{len(out)} traces for {len(lines)} cases (crash) rc={rc} {err[-200:]}"
    return out, ""


def find_bad_case(bins, kind, lines):
    """bisect a batch that hangs or crashes down to one case"""
    lo = list(lines)
    while len(lo) > 1:
        mid = len(lo) // 2
        a, b = lo[:mid], lo[mid:]
        try:
            out, _, _ = run_lines(os.path.join(bins, "co-harness" if kind == "co" else "fc-harness"), [], a, timeout=60)
            ok = len(out) == len(a)
        except subprocess.TimeoutExpired:
            ok = False
        lo = b if ok else a
    return lo[0]


def run_model(runner, coacc, kind, cfg, lines, impl):
    if kind == "co":
        cf = os.path.join(CACHE, f"co-{os.getpid()}.cases")
        tf = os.path.join(CACHE, f"co-{os.getpid()}.traces")
        open(cf, "w").write("\n".join(lines) + "\n")
        open(tf, "w").write("\n".join(impl) + "\n")
        p = subprocess.run([coacc, cf, tf], text=True, capture_output=True, timeout=900)
        os.unlink(cf)
        os.unlink(tf)
        rej = {}
        for l in p.stdout.splitlines():
            m = re.match(r"(\S+) REJECT at (\d+): (.*)", l)
            if m:
                rej[m.group(1)] = f"the acceptor rejects event {m.group(2)}: {m.group(3)}"
        return rej, p.stdout.splitlines()[-1] if p.stdout else ""
    if kind == "cov":       # the "model" of a Vec-source run is the stream-source run of the same pipeline, minus the source's own events
        bins, _ = build_harness(cfg)
        ref, err = run_impl(bins, "co", lines)
        if ref is None:
            raise SystemExit("stream-source reference run failed: " + err)
        out = []
        for l in ref:
            t = l.split(" ")
            taken = sum(1 for i, x in enumerate(t) if x.startswith("=I") and i > 0 and t[i - 1].startswith("c0:"))
            keep, skip = [t[0]], False
            for x in t[1:]:
                if x.startswith("c0:"):
                    skip = True          # the source's poll and its answer
                    continue
                if skip and x[0] == "=":
                    skip = False
                    continue
                skip = False
                if x == "D0":
                    continue
                keep.append(x)
            out.append(" ".join(keep) + f" #taken={taken}")
        return out, ""
    if kind == "mon":       # monitor-only suite (nests of combinators): the implementation's trace is judged by the monitor alone (the *-nest-sim suites compare with the composed model)
        return list(impl), ""
    out, rc, err = run_lines(runner, [cfg], lines)
    if len(out) != len(lines):
        raise SystemExit(f"model runner produced {len(out)} traces for {len(lines)} cases: {err}")
    return out, ""


def shrink(case_line, differs):
    """greedy: drop ops from the end / anywhere, shorten scripts, while `differs(case)` stays true"""
    head, _, ops = case_line.partition(" | ")
    ops = ops.split(" ")
    best = case_line
    changed = True
    budget = 200
    while changed and budget > 0:
        changed = False
        for i in range(len(ops) - 1, -1, -1):
            cand_ops = ops[:i] + ops[i + 1:]
            if not cand_ops:
                continue
            cand = head + " | " + " ".join(cand_ops)
            budget -= 1
            if budget <= 0:
                break
            try:
                if differs(cand):
                    ops = cand_ops
                    best = cand
                    changed = True
            except Exception:
                pass
    return best


def miri_stage(rng, shards=16, per_shard=60):
    """thorough tier of C02 only: the harness is run under Miri (Stacked Borrows, leak check) on a few hundred cases, so that the `unsafe` PollState /
       MaybeUninit / pin-projection code of the crate is executed under an interpreter that reports use-after-drop, double drop, reads of uninitialised
       memory and leaks.  Support for the correspondence (it samples), not a proof.  -> (dict for the evidence, [(cfg, error text, case or None)])"""
    from concurrent.futures import ThreadPoolExecutor
    combs = SCAN4 + ["race", "race_ok", "chain"]
    n = shards * per_shard
    # half random schedules, a quarter drawn from the exhaustive small space of the combinators that buffer values (every drop point, both answers), the rest groups and wait_until
    small = []
    for comb in ("join", "try_join", "zip", "merge"):
        for cont in ("array", "tuple", "vec"):
            sp = gen.gen_small(comb, cont, 2, 2, 3, f"ms{comb[0]}{cont[0]}")
            small += rng.sample(sp, min(len(sp), max(1, n // 48)))
    cases = (gen.gen_fixed(rng, "std", combs, n // 2, "mi", panic=0.1) + small + gen.gen_groups(rng, n // 8, "mg")
             + gen.gen_wait(rng, n // 8, "mw", panic=0.1))
    bins, err = build_harness("std")
    if bins is None:
        return dict(status="skipped: the harness does not build"), []
    bd = os.path.join(CACHE, f"hsrc-{REPO_TAG}")
    tgt = os.path.join(CACHE, f"target-miri-{REPO_TAG}")
    env = dict(os.environ, CARGO_NET_OFFLINE="true", MIRIFLAGS="-Zmiri-disable-isolation")
    cmd = ["cargo", "+nightly", "miri", "run", "-q", "--offline", "--features", "fc-std", "--bin", "fc-harness", "--target-dir", tgt]

    def one(chunk):
        try:
            p = subprocess.run(cmd, input="\n".join(chunk) + "\n", text=True, capture_output=True, cwd=bd, env=env, timeout=1500)
            return p.stdout.splitlines(), p.returncode, p.stderr
        except subprocess.TimeoutExpired:
            return [], 124, "timeout"
    # build once (serial), then the shards in parallel
    out0, rc0, err0 = one(cases[:1])
    if rc0 != 0 and not re.search(r"Undefined Behavior|memory leaked|Data race", err0):
        return dict(status="skipped: cargo +nightly miri is not usable here: " + err0.strip().splitlines()[-1][:200] if err0.strip() else "skipped"), []
    chunks = [cases[i::shards] for i in range(shards)]
    with ThreadPoolExecutor(shards) as ex:
        res = list(ex.map(one, chunks))
    native, _ = run_impl(bins, "scan", cases)
    # which waker a child is handed is told apart by Waker::will_wake, i.e. by vtable addresses, which are not unique under Miri: the labels are dropped
    nolabel = lambda l: re.sub(r"\b(c\d+):\S+", r"\1", l)
    native = {l.split(" ")[0]: nolabel(l) for l in (native or [])}
    fails, ran, differ = [], 0, 0
    for chunk, (out, rc, errtxt) in zip(chunks, res):
        ran += len(out)
        for l in out:
            if native and native.get(l.split(" ")[0]) != nolabel(l):
                differ += 1
        if rc != 0:
            m = re.search(r"error: (Undefined Behavior[^\n]*|memory leaked[^\n]*|Data race[^\n]*)(?:\n[^\n]*){0,6}", errtxt)
            bad = chunk[len(out)] if len(out) < len(chunk) else None
            if bad is None:      # a leak is reported when the process exits: find a case that leaks on its own
                with ThreadPoolExecutor(shards) as ex2:
                    singles = list(ex2.map(lambda c: one([c]), chunk))
                bad = next((c for c, (_, rc1, _) in zip(chunk, singles) if rc1 != 0), None)
            fails.append(("std", "Miri: " + (m.group(0) if m else errtxt.strip()[-400:]), bad))
    if differ:
        fails.append(("std", f"Miri: {differ} traces differ from the native run of the same cases (waker labels aside)", None))
    return dict(status="ran", cases=ran, errors=len(fails), traces_differing_from_native_run_waker_labels_aside=differ,
                flags="-Zmiri-disable-isolation (Stacked Borrows and the leak check are on by default)"), fails



def mt_stage(rng, count=40000, shards=16):
    """thorough tier of C01: the "from another thread" clause under real concurrency (harness/src/bin/mt-harness.rs).  Every Pending child is woken
       from a second OS thread at an arbitrary moment; the main thread is an executor that polls only after a wake-up of its own waker.  A lost
       wake-up is a hang (20 s), which - like a panic or a wrong result - is reported with the case.  Not replayable exactly (the interleaving is
       the machine's); support for the lock-window assumption of the model, not a proof.  -> (dict for the evidence, [(cfg, text, case)])"""
    from concurrent.futures import ThreadPoolExecutor
    bins, err = build_harness("std")
    if bins is None:
        return dict(status="skipped: the harness does not build"), []
    cases = gen.gen_mt(rng, count, "t")
    exe = os.path.join(bins, "mt-harness")
    chunks = [cases[i::shards] for i in range(shards)]

    def one(chunk):
        try:
            p = subprocess.run([exe], input="\n".join(chunk) + "\n", text=True, capture_output=True, timeout=1800)
            return p.stdout.splitlines()
        except subprocess.TimeoutExpired:
            return []
    with ThreadPoolExecutor(shards) as ex:
        res = list(ex.map(one, chunks))
    fails, ran, kinds = [], 0, {}
    for chunk, out in zip(chunks, res):
        if len(out) != len(chunk) and not (out and " HANG " in out[-1]):
            fails.append(("std", f"mt-harness produced {len(out)} lines for {len(chunk)} cases (crash or time-out)", chunk[len(out)] if len(out) < len(chunk) else None))
            continue
        for case, line in zip(chunk, out):
            ran += 1
            k = case.split(" ")[1] + "/" + case.split(" ")[2]
            kinds[k] = kinds.get(k, 0) + 1
            why = gen.mt_expect(case, line)
            if why:
                fails.append(("std", "real threads: " + why, case))
    return dict(status="ran", cases=ran, failures=len(fails), distribution=kinds,
                note="every Pending child is woken from a second OS thread; the executor polls only after a wake-up; hang = 20 s without one"), fails



def load_known(pid):
    p = os.path.join(ROOT, "known_findings.txt")
    out = []
    if os.path.exists(p):
        for l in open(p):
            l = l.strip()
            if l.startswith("finding:") and f"property={pid} " in l:
                m = re.search(r"match=/(.*?)/", l)
                out.append((l, re.compile(m.group(1)) if m else None))
    return out


def decide(pid, tier, seed):
    t0 = time.time()
    rng = random.Random(seed * 1000003 + int(pid[1:]))
    pr = check_proofs(pid, tier)
    runner, coacc = build_runner()
    projname, suites = suites_for(pid, rng, tier)
    proj = PROJ[projname]
    mon = monitors.MONITORS.get(pid)
    known = load_known(pid)
    stats = dict(evaluations=0, nontrivial=set(), dist={}, outcomes={}, sizes={}, samples=[], monitor_evals=0, configs=set())
    diffs = []          # (suite, cfg, case, impl, model, why_monitor)
    monfails = []       # (suite, cfg, case, impl, why)
    batch_fail = []
    corpus = os.path.join(ROOT, "corpus", pid + ".cases")
    corpus_cases = [l.strip() for l in open(corpus)] if os.path.exists(corpus) else []
    bins_cache = {}
    for (sname, cfg, kind, cases) in suites:
        if cfg not in bins_cache:
            bins_cache[cfg] = build_harness(cfg)
        bins, err = bins_cache[cfg]
        if bins is None:
            batch_fail.append((sname, cfg, "the harness does not build against the current tree:\n" + err, None))
            continue
        # corpus: nests go to the nest-sim suites (the composed model predicts them), everything else to the flat suites
        extra = [] if kind in ("cov", "mon") else [c for c in corpus_cases if c.split(" ")[1].startswith("co:") == (kind == "co") and (f" {cfg}#" in c or "#" not in c)
                                                   and c.split(" ")[1].startswith("nest_") == (kind == "nsim")]
        cases = [c.split("#")[0].rstrip() for c in extra] + cases if sname.endswith("exhaustive") is False else cases
        stats["configs"].add(cfg)
        impl, err = run_impl(bins, kind, cases)
        if impl is None:
            bad = find_bad_case(bins, kind, cases)
            batch_fail.append((sname, cfg, err, bad))
            continue
        model, note = run_model(runner, coacc, kind, cfg, cases, impl)
        coqmon = {}
        if kind == "scan":
            # the Coq-extracted trace predicates (the functions the theorems are about) evaluated on the implementation's traces
            cf = os.path.join(CACHE, f"mon-{os.getpid()}.cases")
            tf = os.path.join(CACHE, f"mon-{os.getpid()}.traces")
            open(cf, "w").write("\n".join(cases) + "\n")
            open(tf, "w").write("\n".join(impl) + "\n")
            p = subprocess.run([os.path.join(CACHE, "montool"), cf, tf, cfg, pid], text=True, capture_output=True, timeout=900)
            os.unlink(cf)
            os.unlink(tf)
            for l in p.stdout.splitlines():
                m = re.match(r"(\S+) (\w+) fails$", l)
                if m:
                    coqmon[m.group(1)] = f"the Coq predicate {m.group(2)} (extracted from the development; see coq/ExtractMon.v) rejects this trace"
                m = re.match(r"evaluated=(\d+) failed=(\d+)", l)
                if m:
                    stats["coq_monitor_evals"] = stats.get("coq_monitor_evals", 0) + int(m.group(1))
        for idx, (case, a) in enumerate(zip(cases, impl)):
            stats["evaluations"] += 1
            ta = a.split(" ")[1:]
            cs = None
            nontriv = "=P" in ta
            if nontriv:
                stats["nontrivial"].add(hashlib.md5((cfg + case.split(" ", 1)[1]).encode()).hexdigest())
            hp = case.split(" ")
            key = f"{hp[1]}/{hp[2]}/{cfg}" if kind != "co" else f"{hp[1]}/{cfg}"
            stats["dist"][key] = stats["dist"].get(key, 0) + 1
            oc = "panicked" if "E:X" in ta or "=X" in ta else ("completed" if any(x.startswith("E:") and x not in ("E:P",) for x in ta) else "pending-at-end")
            stats["outcomes"][oc] = stats["outcomes"].get(oc, 0) + 1
            if len(stats["samples"]) < 4 and nontriv and idx % 97 == 3:
                stats["samples"].append(dict(suite=sname, config=cfg, case=case, implementation_trace=a))
            why = None
            # (a zip or a chain of merges deliberately leaves a woken leaf unpolled - an input held back, an input whose turn has not come: the
            #  leaf-level monitors, which know no "awaited" per level, do not apply; those nests are judged by the composed model alone)
            if mon is not None and kind != "cov" and not (kind == "nsim" and case.split(" ")[1] in ("nest_cm", "nest_zm")):
                try:
                    cs = Case(case)
                    why = mon(cs, ta)
                    stats["monitor_evals"] += 1
                except Exception as ex:      # a monitor that cannot read a trace must not hide anything
                    why = None
                    stats.setdefault("monitor_errors", []).append(f"{case[:80]}: {ex!r}")
            if hp[0] in coqmon:
                why = (why + "; " if why else "") + coqmon[hp[0]]
            if kind == "co":
                if hp[0] in model:
                    diffs.append((sname, cfg, case, a, model[hp[0]], why))
                elif why:
                    monfails.append((sname, cfg, case, a, why))
            elif kind == "cov":
                # Vec source vs stream source: equal traces, except that the Vec also drops (V) the items the stream run never took
                b = model[idx]
                tb = b.split(" ")[1:]
                taken = int(tb[-1].split("=")[1])
                tb = tb[:-1]
                ta2 = [x for x in ta if not (x[0] == "V" and x[1:].isdigit() and int(x[1:]) >= taken)]
                if ta2 != tb:
                    diffs.append((sname, cfg, case.replace(" co:", " cov:", 1), a, " ".join([b.split(" ")[0]] + tb), "Vec::into_co_stream() does not behave like a stream source that has every item ready"))
            else:
                b = model[idx]
                tb = b.split(" ")[1:]
                if proj(ta) != proj(tb):
                    diffs.append((sname, cfg, case, a, b, why))
                elif why:
                    monfails.append((sname, cfg, case, a, why))
    mt = None
    if tier == "thorough" and pid == "C01":
        mt, tfails = mt_stage(rng)
        for (cfg, err, bad) in tfails[:10]:
            batch_fail.append(("threads", cfg, err, bad))
    cz = None
    if tier == "thorough" and pid == "C01":
        # model self-test for DESIGN 4 (oblivious scripts cover adaptive children because the model is causal): support, no crate involved
        import causality
        cz, zfails = causality.run(int(os.environ.get("VERIF_SEED", "1")), 20000)
        for (cfg, err, bad) in zfails:
            batch_fail.append(("model-causality", cfg, err, bad))
    miri = None
    if tier == "thorough" and pid == "C02":
        miri, mfails = miri_stage(rng)
        for (cfg, err, bad) in mfails:
            batch_fail.append(("miri", cfg, err, bad))
    if not stats["samples"] and suites:
        c = suites[0][3][0]
        stats["samples"].append(dict(suite=suites[0][0], config=suites[0][1], case=c))

    # ------------------------------------------------------------------ verdict
    problems = []
    if not pr["ok"]:
        problems.append("proof")
    if diffs:
        problems.append("correspondence")
    if monfails:
        problems.append("monitor")
    if batch_fail:
        problems.append("batch")
    found = [d for d in diffs if d[5]] + [(m[0], m[1], m[2], m[3], None, m[4]) for m in monfails]
    # known findings
    known_hits = []
    if known and (diffs or monfails):
        rest_d, rest_m = [], []
        for d in diffs:
            hit = next((k for k in known if k[1] and k[1].search(d[2])), None)
            (known_hits.append((hit[0], d[2])) if hit else rest_d.append(d))
        for m in monfails:
            hit = next((k for k in known if k[1] and k[1].search(m[2])), None)
            (known_hits.append((hit[0], m[2])) if hit else rest_m.append(m))
        diffs, monfails = rest_d, rest_m
        found = [d for d in diffs if d[5]] + [(m[0], m[1], m[2], m[3], None, m[4]) for m in monfails]
    for k in {h[0] for h in known_hits}:
        print("KNOWN-FINDING: " + k[len("finding:"):].strip())
    violation = (not pr["ok"]) or bool(diffs) or bool(monfails) or bool(batch_fail)
    replay = None
    if violation:
        os.makedirs(os.path.join(ROOT, "replays"), exist_ok=True)
        replay = os.path.join(ROOT, "replays", f"{pid}-{tier}-{seed}.replay")
        with open(replay, "w") as f:
            f.write(f"# property {pid}  tier {tier}  seed {seed}  repository {REPO}\n# replay: ./check replay {replay}\n")
            if not pr["ok"]:
                f.write(f"PROOF   the proof obligations of {pid} no longer check: {pr['why']}\n")
                f.write(f"THEOREMS {' '.join(pr['theorems'])}\n")
            for (sname, cfg, err, bad) in batch_fail:
                f.write(f"BATCH   suite {sname} config {cfg}: {err}\n")
                if bad:
                    f.write(f"CONFIG  {cfg}\nCASE    {bad}\nMONITOR the implementation hangs or crashes on this case\n\n")
            shown = 0
            order = sorted(found, key=lambda d: len(d[2])) + [d for d in diffs if not d[5]]
            # the shortest failing input, minimised: operations are dropped greedily while the property's monitor still fails on the implementation
            if found and mon is not None:
                (s0, c0, case0, _, _, _) = sorted(found, key=lambda d: len(d[2]))[0]
                k0 = next((k for (n_, c_, k, _) in suites if n_ == s0 and c_ == c0), None)
                if k0 == "scan" and c0 in bins_cache and bins_cache[c0][0]:
                    def still_fails(cand):
                        out, _ = run_impl(bins_cache[c0][0], "scan", [cand])
                        return bool(out) and bool(mon(Case(cand), out[0].split(" ")[1:]))
                    try:
                        small = shrink(case0, still_fails)
                        if small != case0:
                            out, _ = run_impl(bins_cache[c0][0], "scan", [small])
                            f.write(f"SHRUNK  from suite {s0}, config {c0}: the same monitor failure on fewer operations\nCASE    {small}\nIMPL    {out[0]}\n"
                                    f"MONITOR {mon(Case(small), out[0].split(' ')[1:])}\n\n")
                    except Exception as ex:
                        f.write(f"# shrinking failed: {ex!r}\n")
            for (sname, cfg, case, a, b, why) in order[:25]:
                f.write(f"SUITE   {sname} (projection {projname})\nCONFIG  {cfg}\nCASE    {case}\nIMPL    {a}\n")
                if b is not None:
                    f.write(f"MODEL   {b}\n")
                f.write(f"MONITOR {why or 'no property failure on this case; the model no longer predicts the implementation (correspondence ' + sname + '/' + projname + ' broken)'}\n\n")
                shown += 1
            if not found and not batch_fail:
                f.write("NO-FAILING-INPUT  the property is no longer shown to hold: "
                        + ("theorem file Properties/%s.v does not check; " % pid if not pr["ok"] else "")
                        + (f"correspondence suite(s) {sorted({d[0] for d in diffs})} under projection {projname} differ on {len(diffs)} cases" if diffs else "") + "\n")
        tail = "" if (found or any(b for (_, _, _, b) in batch_fail)) else " no-failing-input-found"
        print(f"VIOLATION property={pid} replay={replay}{tail}")

    if not violation:
        stale = os.path.join(ROOT, "replays", f"{pid}-{tier}-{seed}.replay")
        if os.path.exists(stale):
            os.unlink(stale)
    ev = dict(property_id=pid, tier=tier, seed=seed, level="proof", wall_s=round(time.time() - t0, 2),
              violations=(0 if not violation else len(diffs) + len(monfails) + len(batch_fail) + (0 if pr["ok"] else 1)),
              coverage=dict(
                  obligations=pr["obligations"], discharged=pr["discharged"],
                  checker_cmd=f"make -C coq Properties/{pid}.vo && coqc -R coq FC coq/Properties/{pid}.v (Print Assumptions)"
                              + ("; coqchk -o -silent -R coq FC FC.Properties.%s" % pid if tier == "thorough" else ""),
                  trusted_base=["Coq 8.16.1 kernel (coqc" + ("; coqchk re-check" if tier == "thorough" else "") + "); no native_compute",
                                "axioms: none (every Print Assumptions reports 'Closed under the global context')",
                                "extraction: ExtrOcamlBasic only, no Extract Constant / Extract Inductive of our own; OCaml 4.13.1; runner/main.ml, runner/comain.ml, runner/montool.ml (parsers/printers)",
                                "correspondence check: harness/ (Rust, scripted children, logging wakers), tools/driver.py, tools/gen.py; it samples",
                                "modelled, not verified: all of /repo/src (hand-written model tied by differential execution); std Mutex/Arc/Waker, slab, fixedbitset, smallvec, futures-buffered, pin-project, rustc drop glue and async lowering are outside the model"],
                  theorems=pr["theorems"], examples=pr["examples"], proof_status=("ok" if pr["ok"] else pr["why"]),
                  evaluations=stats["evaluations"], distinct_nontrivial=len(stats["nontrivial"]),
                  rule="corpus, exhaustive small space (suites named *-exhaustive), then random structured cases from VERIF_SEED (wake-only executor, adversarial and drain-to-completion schedules, tools/gen.py); "
                       "non-trivial = distinct (config, case) in which at least one child returned Pending at least once",
                  samples=stats["samples"], distribution=stats["dist"], outcomes=stats["outcomes"], projection=projname,
                  configurations=sorted(stats["configs"]), monitor_evaluations=stats["monitor_evals"],
                  coq_predicate_evaluations_on_impl_traces=stats.get("coq_monitor_evals", 0),
                  monitor_errors=stats.get("monitor_errors", [])[:5],
                  traces_validated_against_impl=stats["evaluations"], correspondence_differences=len(diffs), monitor_failures=len(monfails),
                  known_findings_matched=len(known_hits), exhaustive=False, **({"miri": miri} if miri else {}), **({"real_threads": mt} if mt else {}), **({"model_causality": cz} if cz else {})),
              assumptions=["the model predicts the implementation on the cases that were not run",
                           "std::sync::Mutex / Arc / Waker behave as specified; wakes from other threads land in the windows where the readiness lock is free",
                           "no usize overflow"])
    # evidence belongs to /repo itself; a run against another tree (VERIF_REPO) writes under .cache/ instead
    evdir = os.path.join(ROOT, "evidence") if REPO == "/repo" else os.path.join(CACHE, "evidence-" + REPO_TAG)
    os.makedirs(evdir, exist_ok=True)
    json.dump(ev, open(os.path.join(evdir, pid + ".json"), "w"), indent=1)
    print(f"{pid} tier={tier} seed={seed} proofs={'ok' if pr['ok'] else 'BROKEN'} ({pr['discharged']}/{pr['obligations']}) cases={stats['evaluations']} "
          f"nontrivial={len(stats['nontrivial'])} diffs={len(diffs)} monitor_failures={len(monfails)} batch_failures={len(batch_fail)} wall={time.time()-t0:.1f}s")
    return 1 if violation else 0


def cmd_replay(path):
    runner, coacc = build_runner()
    cfg = None
    rc = 0
    for l in open(path):
        if l.startswith("CONFIG"):
            cfg = l.split()[1]
        elif l.startswith("CASE"):
            case = l[4:].strip()
            kind = "co" if case.split(" ")[1].startswith("co:") else "scan"
            bins, err = build_harness(cfg or "std")
            if bins is None:
                print("harness build failed:\n" + err)
                return 1
            impl, err = run_impl(bins, kind, [case])
            print("CONFIG", cfg)
            print("CASE  ", case)
            print("IMPL  ", impl[0] if impl else err)
            if impl:
                model, _ = run_model(runner, coacc, kind, cfg or "std", [case], impl)
                if kind == "co":
                    print("MODEL ", model.get(case.split(" ")[0], "accepted"))
                    rc |= 1 if model else 0
                else:
                    print("MODEL ", model[0])
                    rc |= 1 if model[0] != impl[0] else 0
                for pid, mon in monitors.MONITORS.items():
                    try:
                        why = mon(Case(case), impl[0].split(" ")[1:])
                    except Exception:
                        why = None
                    if why:
                        print(f"MONITOR {pid}: {why}")
                        rc |= 1
            else:
                rc |= 1
            print()
    return rc


def main(argv):
    if not argv or argv[0] in ("-h", "--help"):
        print(open(os.path.join(ROOT, "check")).read().split('"""')[1])
        return
    if argv[0] == "pin":
        return cmd_pin()
    if argv[0] == "replay":
        sys.exit(cmd_replay(argv[1]))
    if argv[0] == "list":
        for f in sorted(os.listdir(os.path.join(COQ, "Properties"))):
            if f.endswith(".v"):
                print(f[:-2], " ".join(statements(open(os.path.join(COQ, "Properties", f)).read())))
        return
    pid = argv[0]
    tier = os.environ.get("VERIF_TIER", "quick")
    if "--tier" in argv:
        tier = argv[argv.index("--tier") + 1]
    seed = int(os.environ.get("VERIF_SEED", "1"))
    if pid == "C18":
        import autotraits
        sys.exit(autotraits.decide(tier, seed))
    sys.exit(decide(pid, tier, seed))
