#!/usr/bin/env python3
"""Mutation regression of the machinery: re-run every quick check against every kept seeded change (seeded/<name>/patch.diff applied to a scratch
   export of /repo's HEAD, outside /repo and /verif, removed afterwards) and report, per change, which checks raise an alarm.
   usage: tools/seedall.py [--update] [name ...]      --update rewrites checks_raising_alarm in seeded/<name>/meta.json
   Prints one line per change:  SEED <name> own=<property> verdict=<FOUND-INPUT|no-failing-input-found|MISSED> alarms=<json>"""
import json, os, re, shutil, subprocess, sys, hashlib, glob

ROOT = os.path.dirname(os.path.dirname(os.path.abspath(__file__)))
SCRATCH = os.environ.get("SEEDALL_DIR", "/tmp/seedall")
args = [a for a in sys.argv[1:] if not a.startswith("--")]
update = "--update" in sys.argv
names = args or sorted(os.path.basename(os.path.dirname(p)) for p in glob.glob(os.path.join(ROOT, "seeded", "*", "patch.diff")))
missed = 0
for name in names:
    sd = os.path.join(ROOT, "seeded", name)
    meta = json.load(open(os.path.join(sd, "meta.json")))
    tree = os.path.join(SCRATCH, name)
    shutil.rmtree(tree, ignore_errors=True)
    os.makedirs(tree)
    subprocess.run(f"git -C /repo archive HEAD | tar -x -C {tree}", shell=True, check=True)
    lock = "/repo/Cargo.lock"
    if os.path.exists(lock):
        shutil.copy(lock, os.path.join(tree, "Cargo.lock"))
    r = subprocess.run(["patch", "-p1", "-s", "-i", os.path.join(sd, "patch.diff")], cwd=tree, text=True, capture_output=True)
    if r.returncode != 0:
        print(f"SEED {name} patch does not apply: {r.stdout[-200:]}")
        continue
    r = subprocess.run([sys.executable, os.path.join(ROOT, "tools", "seedrun.py"), tree], text=True, capture_output=True, cwd=ROOT)
    alarms = {}
    for l in r.stdout.splitlines():
        m = re.match(r"(C\d\d) rc=(\d) (\S+)", l)
        if m and m.group(2) != "0":
            alarms[m.group(1)] = m.group(3)
    own = meta["breaks_property"]
    verdict = alarms.get(own, "MISSED")
    missed += verdict == "MISSED"
    print(f"SEED {name} own={own} verdict={verdict} alarms={json.dumps(alarms, sort_keys=True)}", flush=True)
    if update:
        meta["checks_raising_alarm"] = alarms
        meta["detected_by_own_property_check"] = own in alarms
        meta["own_check_verdict"] = alarms.get(own, "no alarm")
        json.dump(meta, open(os.path.join(sd, "meta.json"), "w"), indent=1)
    # remove the scratch tree and everything built from it
    tag = hashlib.md5(os.path.abspath(tree).encode()).hexdigest()[:8]
    shutil.rmtree(tree, ignore_errors=True)
    for p in glob.glob(os.path.join(ROOT, ".cache", f"*{tag}*")) + glob.glob(os.path.join(ROOT, ".cache", "seedrun", tag)):
        if os.path.isdir(p):
            shutil.rmtree(p, ignore_errors=True)
        else:
            os.remove(p)
shutil.rmtree(SCRATCH, ignore_errors=True)
# the C18 run against a changed tree leaves that tree's table in coq/Gen: regenerate from /repo
subprocess.run([sys.executable, os.path.join(ROOT, "tools", "autotraits.py"), "generate"], cwd=ROOT, capture_output=True)
print(f"{len(names)} changes, {missed} missed by the check of their own property")
sys.exit(1 if missed else 0)
